import Srsim.Proofs.SimExit
/-!
Second half of the proof of C09 over whole runs: the death check, the exit check and the control
functions of the driver model (`queueLoop`, `executeQueue`, `phase2`, `turn`, `turns`, `start`, `run`).
-/
set_option linter.unusedSectionVars false
namespace Sim
open Proto
variable {cfg : Cfg} {x0 : XSt Rat}

/-! ### the death check -/

theorem setEnergy_rest (s : S Rat) (t : Int) (a : Rat) :
    (setEnergy s t a).active = s.active ∧ (setEnergy s t a).terminated = s.terminated ∧
    (setEnergy s t a).dealt = s.dealt ∧ (setEnergy s t a).taken = s.taken := by
  rcases setEnergy_cases s t a with h | ⟨u, e, _, h | h⟩ <;> rw [h] <;> exact ⟨rfl, rfl, rfl, rfl⟩

theorem energyOnDeath_rest (s : S Rat) (k : Int) :
    (energyOnDeath s k).active = s.active ∧ (energyOnDeath s k).terminated = s.terminated ∧
    (energyOnDeath s k).dealt = s.dealt ∧ (energyOnDeath s k).taken = s.taken := by
  unfold energyOnDeath
  split
  · exact setEnergy_rest _ _ _
  · exact ⟨rfl, rfl, rfl, rfl⟩

structure DFr (s s' : S Rat) : Prop where
  clock : s'.turn.totalAV = s.turn.totalAV
  active : s'.active = s.active
  term : s'.terminated = s.terminated
  dealt : s'.dealt = s.dealt
  taken : s'.taken = s.taken

theorem dstep_dfr (s : S Rat) (t : Int) : DFr s (dstep s t) := by
  unfold dstep
  have h1 := energyOnDeath_chars { s with turn := (Turn.step s.turn (.remove t)).1 } (killerOf s t)
  have h2 := energyOnDeath_rest { s with turn := (Turn.step s.turn (.remove t)).1 } (killerOf s t)
  refine ⟨?_, h2.1, h2.2.1, h2.2.2.1, h2.2.2.2⟩
  show (energyOnDeath _ _).turn.totalAV = _
  rw [h1.2.2.1]
  exact remove_clock s.turn t

theorem dfold_dfr (ts : List Int) (s : S Rat) : DFr s (ts.foldl dstep s) := by
  induction ts generalizing s with
  | nil => exact ⟨rfl, rfl, rfl, rfl, rfl⟩
  | cons a rest ih =>
    simp only [List.foldl_cons]
    have h1 := dstep_dfr s a
    have h2 := ih (dstep s a)
    exact ⟨h2.clock.trans h1.clock, h2.active.trans h1.active, h2.term.trans h1.term, h2.dealt.trans h1.dealt,
      h2.taken.trans h1.taken⟩

def rmAll (l : List Int) (ts : List Int) : List Int := ts.foldl (fun l t => l.filter (· != t)) l

theorem dstep_mon (s : S Rat) (t : Int) (x : XSt Rat) (hx : xst cfg x0 s = .ok x) :
    xst cfg x0 (dstep s t) =
      .ok { x with chars := x.chars.filter (· != t), enemies := x.enemies.filter (· != t) } := by
  rcases dstep_evs s t with h | ⟨k, o, n, h⟩
  · exact xst_cons h hx (xstep_death cfg x t _)
  · have h1 : xst cfg x0 (emit s (.energy k o n)) = .ok x := xst_cons rfl hx (xstep_energy cfg x k o n)
    exact xst_cons (s := emit s (.energy k o n)) h h1 (xstep_death cfg x t _)

theorem dfold_mon (ts : List Int) (s : S Rat) (x : XSt Rat) (hx : xst cfg x0 s = .ok x) :
    xst cfg x0 (ts.foldl dstep s) = .ok { x with chars := rmAll x.chars ts, enemies := rmAll x.enemies ts } := by
  induction ts generalizing s x with
  | nil => exact hx
  | cons a rest ih =>
    simp only [List.foldl_cons]
    rw [ih (dstep s a) _ (dstep_mon s a x hx)]
    rfl

theorem rmAll_eq (l ts : List Int) : rmAll l ts = l.filter (fun c => !ts.contains c) := by
  unfold rmAll
  induction ts generalizing l with
  | nil => simp
  | cons a rest ih =>
    simp only [List.foldl_cons]
    rw [ih, List.filter_filter]
    apply List.filter_congr
    intro c _
    simp only [List.contains_cons, Bool.not_or]
    rw [Bool.and_comm]
    rfl

theorem rmAll_dead (W : Int → Bool) (cs es l : List Int) (hl : l = cs ∨ l = es) :
    rmAll l (cs.filter W ++ es.filter W) = l.filter (fun id => !W id) := by
  rw [rmAll_eq]
  apply List.filter_congr
  intro c hc
  congr 1
  rw [Bool.eq_iff_iff]
  simp only [List.contains_eq_mem, List.mem_append, List.mem_filter, decide_eq_true_eq]
  constructor
  · rintro (h | h) <;> exact h.2
  · intro h
    rcases hl with rfl | rfl
    · exact Or.inl ⟨hc, h⟩
    · exact Or.inr ⟨hc, h⟩

theorem deathCheck_dfr (s : S Rat) (b : Bool) : DFr s (deathCheck s b) := by
  rw [deathCheck_eq]
  have h := dfold_dfr ((s.chars.filter (willDie s b)) ++ (s.enemies.filter (willDie s b)))
    { s with chars := s.chars.filter (fun id => !willDie s b id), enemies := s.enemies.filter (fun id => !willDie s b id) }
  exact ⟨h.clock, h.active, h.term, h.dealt, h.taken⟩

theorem deathCheck_mon (s : S Rat) (b : Bool) (x : XSt Rat) (hx : xst cfg x0 s = .ok x) (hc : Cpl s x) :
    ∃ x', xst cfg x0 (deathCheck s b) = .ok x' ∧ Cpl (deathCheck s b) x' ∧ x'.afterTask = x.afterTask := by
  have hf := deathCheck_dfr s b
  rw [deathCheck_eq] at hf ⊢
  refine ⟨_, dfold_mon _ _ x hx, ⟨?_, ?_, ?_, ?_, ?_, ?_, ?_⟩, rfl⟩
  · rw [(dfold_chars _ _).1]
    show rmAll x.chars _ = s.chars.filter _
    rw [hc.chars]
    exact rmAll_dead _ _ _ _ (Or.inl rfl)
  · rw [(dfold_chars _ _).2]
    show rmAll x.enemies _ = s.enemies.filter _
    rw [hc.enemies]
    exact rmAll_dead _ _ _ _ (Or.inr rfl)
  · rw [hf.clock]; exact hc.clock
  · rw [hf.dealt]; exact hc.dealt
  · rw [hf.taken]; exact hc.taken
  · rw [hf.active]; exact hc.active
  · rw [hf.term]; exact hc.term

/-! ### the exit check -/

theorem xstep_term (x : XSt Rat) (r : Nat) (h : exitOf cfg.cycles x = some r) :
    xstep cfg x (.termination r x.clock) = .ok { x with terminated := true } := by
  simp [xstep, exitStep, h]

/-- result of a piece of control: failed, or coupled and either over or going on with `P` -/
def Post (cfg : Cfg) (x0 : XSt Rat) (s : S Rat) (P : S Rat → XSt Rat → Prop) : Prop :=
  s.err.isSome = true ∨ ∃ x, xst cfg x0 s = .ok x ∧ Cpl s x ∧ (s.terminated = true ∨ P s x)

theorem Post.live {s : S Rat} {P : S Rat → XSt Rat → Prop} (h : Post cfg x0 s P) (hn : stopped s = false) :
    ∃ x, xst cfg x0 s = .ok x ∧ Cpl s x ∧ P s x := by
  simp only [stopped, Bool.or_eq_false_iff] at hn
  rcases h with h | ⟨x, hx, hc, h | h⟩
  · rw [hn.2] at h; cases h
  · rw [hn.1] at h; cases h
  · exact ⟨x, hx, hc, h⟩

theorem Post.of_stopped {s : S Rat} {P Q : S Rat → XSt Rat → Prop} (h : Post cfg x0 s P) (hs : stopped s = true) :
    Post cfg x0 s Q := by
  simp only [stopped, Bool.or_eq_true] at hs
  rcases h with h | ⟨x, hx, hc, h | _⟩
  · exact Or.inl h
  · exact Or.inr ⟨x, hx, hc, Or.inl h⟩
  · rcases hs with hs | hs
    · exact Or.inr ⟨x, hx, hc, Or.inl hs⟩
    · exact Or.inl hs

theorem Post.mono {s : S Rat} {P Q : S Rat → XSt Rat → Prop} (h : Post cfg x0 s P)
    (hq : ∀ x, xst cfg x0 s = .ok x → Cpl s x → P s x → Q s x) : Post cfg x0 s Q := by
  rcases h with h | ⟨x, hx, hc, h | h⟩
  · exact Or.inl h
  · exact Or.inr ⟨x, hx, hc, Or.inl h⟩
  · exact Or.inr ⟨x, hx, hc, Or.inr (hq x hx hc h)⟩

/-- a coupled state is a post-condition whatever it is, when it is stopped -/
theorem Post.stopped {s : S Rat} {x : XSt Rat} {P : S Rat → XSt Rat → Prop} (hx : xst cfg x0 s = .ok x)
    (hc : Cpl s x) (hs : stopped s = true) : Post cfg x0 s P := by
  simp only [Sim.stopped, Bool.or_eq_true] at hs
  rcases hs with hs | hs
  · exact Or.inr ⟨x, hx, hc, Or.inl hs⟩
  · exact Or.inl hs

theorem exitCheck_post (s : S Rat) (x : XSt Rat) (hx : xst cfg x0 s = .ok x) (hc : Cpl s x) :
    Post cfg x0 (exitCheck cfg s) (fun s' x' => s' = s ∧ x' = x ∧ exitReason cfg s = none) := by
  unfold exitCheck
  split
  · next r hr =>
    refine Or.inr ⟨{ x with terminated := true }, ?_, ?_, Or.inl rfl⟩
    · refine xst_cons (s := s) rfl hx ?_
      rw [← hc.clock]
      exact xstep_term x r ((exitOf_eq hc).trans hr)
    · exact ⟨hc.chars, hc.enemies, hc.clock, hc.dealt, hc.taken, hc.active, rfl⟩
  · next hr => exact Or.inr ⟨x, hx, hc, Or.inr ⟨rfl, rfl, hr⟩⟩

theorem Post.ite {c : Prop} [Decidable c] {a b : S Rat} {P : S Rat → XSt Rat → Prop}
    (ha : c → Post cfg x0 a P) (hb : ¬c → Post cfg x0 b P) : Post cfg x0 (if c then a else b) P := by
  split
  · exact ha ‹_›
  · exact hb ‹_›

/-! ### the queue -/

theorem queueLoop_post (a : Int) : ∀ (f : Nat) (s : S Rat) (x : XSt Rat), xst cfg x0 s = .ok x → Cpl s x →
    Guard cfg s x → s.active = a →
    Post cfg x0 (queueLoop cfg f s) (fun s' x' => Guard cfg s' x' ∧ s'.active = a) := by
  intro f
  induction f with
  | zero => intro s x _ _ _ _; unfold queueLoop; exact Or.inl rfl
  | succ f ih =>
    intro s x hx hc hg ha
    unfold queueLoop
    split
    · exact Or.inr ⟨x, hx, hc, Or.inr ⟨hg, ha⟩⟩
    · next t q _ =>
      obtain ⟨xq, hxq, hcq, hgq, _⟩ := (Qt.same (cfg := cfg) (x0 := x0) (s := s) (s' := { s with queue := q })
        rfl rfl rfl rfl rfl rfl rfl rfl).live hx hc hg
      refine Post.ite (fun _ => ?_) (fun _ => Post.ite (fun _ => ?_) (fun _ => Post.ite (fun _ => ?_) (fun _ => ?_)))
      · refine (exitCheck_post s x hx hc).mono ?_
        rintro x' _ _ ⟨h1, h2, _⟩
        rw [h1, h2]; exact ⟨hg, ha⟩
      · exact ih _ xq hxq hcq hgq ha
      · exact ih _ xq hxq hcq hgq ha
      · dsimp only
        have T := execTask_tk (cfg := cfg) (x0 := x0) { s with queue := q } t
        obtain ⟨x1, hx1, hc1⟩ := T.mon xq hxq hcq hgq
        obtain ⟨x2, hx2, hc2, _⟩ := deathCheck_mon _ false x1 hx1 hc1
        have ha2 : (deathCheck (execTask cfg { s with queue := q } t) false).active = a :=
          (deathCheck_dfr _ false).active.trans (T.fr.active.trans ha)
        have P3 := exitCheck_post (cfg := cfg) _ x2 hx2 hc2
        refine Post.ite (fun hs => P3.of_stopped hs) (fun hn => ?_)
        obtain ⟨x3, hx3, hc3, h3, h3x, hr3⟩ := P3.live (by simpa using hn)
        have hg3 : Guard cfg (exitCheck cfg (deathCheck (execTask cfg { s with queue := q } t) false)) x3 := by
          intro _; rw [h3]; exact hr3
        have ha3 : (exitCheck cfg (deathCheck (execTask cfg { s with queue := q } t) false)).active = a := by
          rw [h3]; exact ha2
        have U := Qt.ultCheck (cfg := cfg) (x0 := x0)
          (exitCheck cfg (deathCheck (execTask cfg { s with queue := q } t) false))
        obtain ⟨x4, hx4, hc4, hg4, _⟩ := U.live hx3 hc3 hg3
        have ha4 := U.fr.active.trans ha3
        refine Post.ite (fun _ => ?_) (fun _ => ?_)
        · exact Or.inr ⟨x4, hx4, hc4, Or.inr ⟨hg4, ha4⟩⟩
        · exact ih _ x4 hx4 hc4 hg4 ha4

theorem executeQueue_post (f : Nat) (s : S Rat) (early : Bool) (x : XSt Rat) (hx : xst cfg x0 s = .ok x)
    (hc : Cpl s x) (hg : Guard cfg s x) :
    Post cfg x0 (executeQueue cfg f s early) (fun s' x' => Guard cfg s' x' ∧ s'.active = s.active ∧
      (early = true → isCharId cfg s.active = false → exitReason cfg s' = none)) := by
  have U := Qt.ultCheck (cfg := cfg) (x0 := x0) s
  obtain ⟨x1, hx1, hc1, hg1, _⟩ := U.live hx hc hg
  unfold executeQueue
  dsimp only
  refine Post.ite (fun hs => Post.stopped hx1 hc1 hs) (fun _ => Post.ite (fun _ => ?_) (fun hn => ?_))
  · refine (exitCheck_post _ x1 hx1 hc1).mono ?_
    rintro x' _ _ ⟨h1, h2, h3⟩
    rw [h1, h2]
    exact ⟨hg1, U.fr.active, fun _ _ => h3⟩
  · refine (queueLoop_post s.active f _ x1 hx1 hc1 hg1 U.fr.active).mono ?_
    rintro x' _ _ ⟨h1, h2⟩
    refine ⟨h1, h2, ?_⟩
    intro he ha
    rw [he, U.fr.active, ha] at hn
    simp at hn

/-! ### turns -/

theorem Qt.emitClean {s s' : S Rat} (h : Qt cfg x0 s s') (e : Ev Rat) (he : neutral e = true) {x : XSt Rat}
    (hx : xst cfg x0 s = .ok x) (hc : Cpl s x) (hg : Guard cfg s x) :
    ∃ x', xst cfg x0 (Sim.emit s' e) = .ok x' ∧ Cpl (Sim.emit s' e) x' ∧ x'.afterTask = false := by
  obtain ⟨x1, hx1, hc1, hg1, _⟩ := h.live hx hc hg
  refine ⟨{ x1 with afterTask := false }, xst_cons rfl hx1 (xstep_neutral cfg x1 e he (hg1.step hc1)), ?_, rfl⟩
  exact ⟨hc1.chars, hc1.enemies, hc1.clock, hc1.dealt, hc1.taken, hc1.active, hc1.term⟩

theorem guard_of_clean {s : S Rat} {x : XSt Rat} (ha : x.afterTask = false) : Guard cfg s x := by
  intro h; rw [ha] at h; cases h

theorem phase2_body (f : Nat) (s s1 : S Rat) (h1 : Qt cfg x0 s s1) (x : XSt Rat) (hx : xst cfg x0 s = .ok x)
    (hc : Cpl s x) (ha : x.afterTask = false) :
    Post cfg x0 (if stopped (executeQueue cfg f (Sim.emit s1 .phase2Start) false) then
        executeQueue cfg f (Sim.emit s1 .phase2Start) false
      else exitCheck cfg (Sim.emit (deathCheck (Sim.emit (tickPhase2
        (executeQueue cfg f (Sim.emit s1 .phase2Start) false)) .phase2End) true) .turnEnd))
      (fun s' _ => exitReason cfg s' = none) := by
  obtain ⟨x1, hx1, hc1, ha1⟩ := h1.emitClean .phase2Start (by rfl) hx hc (guard_of_clean ha)
  have P2 := executeQueue_post f _ false x1 hx1 hc1 (guard_of_clean ha1)
  refine Post.ite (fun hs => P2.of_stopped hs) (fun hn => ?_)
  obtain ⟨x2, hx2, hc2, hg2, _⟩ := P2.live (by simpa using hn)
  obtain ⟨x3, hx3, hc3, ha3⟩ := (Qt.tickPhase2 _).emitClean .phase2End (by rfl) hx2 hc2 hg2
  obtain ⟨x4, hx4, hc4, ha4⟩ := deathCheck_mon _ true x3 hx3 hc3
  obtain ⟨x5, hx5, hc5, _⟩ := (Qt.refl _).emitClean .turnEnd (by rfl) hx4 hc4 (guard_of_clean (ha4.trans ha3))
  refine (exitCheck_post _ x5 hx5 hc5).mono ?_
  rintro x' _ _ ⟨h1, _, h3⟩
  rw [h1]; exact h3

theorem phase2_post (f : Nat) (s : S Rat) (x : XSt Rat) (hx : xst cfg x0 s = .ok x) (hc : Cpl s x)
    (ha : x.afterTask = false) :
    Post cfg x0 (phase2 cfg f s) (fun s' _ => exitReason cfg s' = none) := by
  unfold phase2
  dsimp only
  refine phase2_body f s _ ?_ x hx hc ha
  refine Qt.trans (b := { s with turn := (Turn.step s.turn .reset).1 })
    (Qt.same rfl rfl rfl (reset_clock _) rfl rfl rfl rfl) (Qt.foldl _ ?_ _ _)
  intro s e
  split
  · exact Qt.emit0 _ _ (by rfl)
  · exact Qt.refl s

@[simp] theorem exitOf_afterTask (c : Int) (x : XSt Rat) (b : Bool) :
    exitOf c { x with afterTask := b } = exitOf c x := rfl

theorem xstep_turnStart (x : XSt Rat) (a : Int) (av total : Rat) (ord : List (Int × Int))
    (h : exitOf cfg.cycles x = none) :
    xstep cfg x (.turnStart a av total ord) = .ok { x with afterTask := false, clock := total, active := a } := by
  simp [xstep, exitStep, h]

theorem xstep_phase1End (x : XSt Rat)
    (hg : (x.afterTask && (exitOf cfg.cycles x).isSome) = false)
    (h : isCharId cfg x.active = false → exitOf cfg.cycles x = none) :
    xstep cfg x .phase1End = .ok { x with afterTask := false } := by
  have e1 : isCharId cfg x.active = (decide (1 ≤ x.active) && decide (x.active ≤ (cfg.nchars : Int))) := rfl
  simp only [xstep, exitStep, hg, Bool.false_eq_true, ite_false, ← e1, exitOf_afterTask]
  cases hh : isCharId cfg x.active
  · rw [h hh]; rfl
  · rfl

theorem turn_post (f : Nat) (s : S Rat) (x : XSt Rat) (hx : xst cfg x0 s = .ok x) (hc : Cpl s x)
    (hr : exitReason cfg s = none) :
    Post cfg x0 (turn cfg f s) (fun s' _ => exitReason cfg s' = none) := by
  unfold turn
  dsimp only
  split
  · next id av st total hst =>
    have hclk := start_clock s.turn hst
    have hx1 : xst cfg x0 (Sim.emit { s with turn := (Turn.step s.turn .start).1, active := id }
        (.turnStart id av total (orderOf st))) = .ok { x with afterTask := false, clock := total, active := id } :=
      xst_cons (s := s) rfl hx (xstep_turnStart x id av total _ ((exitOf_eq hc).trans hr))
    have hc1 : Cpl (Sim.emit { s with turn := (Turn.step s.turn .start).1, active := id }
        (.turnStart id av total (orderOf st))) { x with afterTask := false, clock := total, active := id } :=
      ⟨hc.chars, hc.enemies, hclk.symm, hc.dealt, hc.taken, rfl, hc.term⟩
    obtain ⟨x2, hx2, hc2, ha2⟩ := (Qt.trans (Qt.emit0 _ .phase1Start (by rfl)) (Qt.tickPhase1 _)).clean hx1 hc1 rfl
    obtain ⟨x3, hx3, hc3, ha3⟩ := deathCheck_mon _ false x2 hx2 hc2
    have ha3' := ha3.trans ha2
    refine Post.ite (fun _ => phase2_post f _ x3 hx3 hc3 ha3') (fun _ => ?_)
    have P3 := executeQueue_post f _ true x3 hx3 hc3 (guard_of_clean ha3')
    refine Post.ite (fun hs => P3.of_stopped hs) (fun hn => ?_)
    obtain ⟨x4, hx4, hc4, hg4, hact, hcl⟩ := P3.live (by simpa using hn)
    have hx5 := xst_cons (x0 := x0) (s' := Sim.emit _ .phase1End) rfl hx4 (xstep_phase1End x4 (hg4.step hc4) (by
      intro hh
      rw [exitOf_eq hc4]
      apply hcl rfl
      rw [← hact, ← hc4.active]; exact hh))
    have hc5 : Cpl (Sim.emit (executeQueue cfg f (deathCheck (tickPhase1 cfg (Sim.emit (Sim.emit
        { s with turn := (Turn.step s.turn .start).1, active := id } (.turnStart id av total (orderOf st))) .phase1Start))
        false) true) .phase1End) { x4 with afterTask := false } :=
      ⟨hc4.chars, hc4.enemies, hc4.clock, hc4.dealt, hc4.taken, hc4.active, hc4.term⟩
    split
    · exact Or.inl rfl
    · next s6 h6 =>
      obtain ⟨x6, hx6, hc6, ha6⟩ := (executeAction_own _ s6 id h6).clean hx5 hc5 rfl
      obtain ⟨x7, hx7, hc7, ha7⟩ := deathCheck_mon _ false x6 hx6 hc6
      exact phase2_post f _ x7 hx7 hc7 (ha7.trans ha6)
  · exact Or.inl rfl

theorem turns_post (qf : Nat) : ∀ (f : Nat) (s : S Rat), Post cfg x0 s (fun s' _ => exitReason cfg s' = none) →
    Post cfg x0 (turns cfg qf f s) (fun s' _ => exitReason cfg s' = none) := by
  intro f
  induction f with
  | zero =>
    intro s h
    unfold turns
    exact Post.ite (fun _ => h) (fun _ => Or.inl rfl)
  | succ f ih =>
    intro s h
    unfold turns
    refine Post.ite (fun _ => h) (fun hn => ?_)
    obtain ⟨x, hx, hc, hr⟩ := h.live (by simpa using hn)
    exact ih _ (turn_post qf s x hx hc hr)

/-! ### the whole run -/

def xinit : XSt Rat := { clock := 0, dealt := 0, taken := 0 }

theorem start_tail (s1 s3 : S Rat) (x1 : XSt Rat) (hx1 : xst cfg x0 s1 = .ok x1) (hc1 : Cpl s1 x1)
    (ha1 : x1.afterTask = false) (h0 : s1.active = 0) (h : Qt cfg x0 s1 s3) :
    Post cfg x0 (executeQueue cfg 0 (Sim.emit s3 .battleStart) true) (fun s' _ => exitReason cfg s' = none) := by
  obtain ⟨x4, hx4, hc4, ha4⟩ := h.emitClean .battleStart (by rfl) hx1 hc1 (guard_of_clean ha1)
  refine (executeQueue_post 0 _ true x4 hx4 hc4 (guard_of_clean ha4)).mono ?_
  rintro x' _ _ ⟨_, _, h3⟩
  apply h3 rfl
  have : (Sim.emit s3 .battleStart).active = 0 := h.fr.active.trans h0
  rw [this]
  simp [isCharId]

theorem start_post (s : S Rat) (hev : s.evs = []) (ht : s.terminated = false) (ha : s.active = 0)
    (hd : s.dealt = 0) (hk : s.taken = 0) (hclk : s.turn.totalAV = 0) :
    Post cfg xinit (start cfg s) (fun s' _ => exitReason cfg s' = none) := by
  unfold start
  dsimp only
  have hx1 : xst cfg xinit (Sim.emit (Sim.emit (Sim.emit
      { s with chars := (List.range cfg.nchars).map fun (i : Nat) => (i : Int) + 1,
               enemies := (List.range cfg.nenemies).map fun (i : Nat) => (i : Int) + 1 + cfg.nchars }
      .initialize) (.charsAdded ((List.range cfg.nchars).map fun (i : Nat) => (i : Int) + 1)))
      (.enemiesAdded ((List.range cfg.nenemies).map fun (i : Nat) => (i : Int) + 1 + cfg.nchars))) =
      .ok { xinit with chars := (List.range cfg.nchars).map fun (i : Nat) => (i : Int) + 1,
                       enemies := (List.range cfg.nenemies).map fun (i : Nat) => (i : Int) + 1 + cfg.nchars } := by
    simp [xst, Sim.emit, hev, xrun, exitRun, exitStep, xinit, exitOf]
  refine start_tail _ _ _ hx1 ⟨rfl, rfl, hclk.symm, hd.symm, hk.symm, ha.symm, ht.symm⟩ rfl ha ?_
  have h2 : ∀ (g : S Rat → Turn.Ev Rat → S Rat), (∀ s e, Qt cfg xinit s (g s e)) →
      ∀ (ids : List Int) (s1 : S Rat), Qt cfg xinit s1 ((Turn.step s1.turn (.add ids)).2.foldl g
        { s1 with turn := (Turn.step s1.turn (.add ids)).1 }) := by
    intro g hg ids s1
    exact Qt.trans (b := { s1 with turn := (Turn.step s1.turn (.add ids)).1 })
      (Qt.same rfl rfl rfl rfl rfl rfl rfl rfl) (Qt.foldl _ hg _ _)
  split
  · refine Qt.trans (h2 _ ?_ _ _) (Qt.runProg _ _ _ _)
    intro s e
    split
    · exact Qt.emit0 _ _ (by rfl)
    · exact Qt.refl s
  · refine h2 _ ?_ _ _
    intro s e
    split
    · exact Qt.emit0 _ _ (by rfl)
    · exact Qt.refl s

theorem run_post (fuel qfuel : Nat) (s : S Rat) (hev : s.evs = []) (ht : s.terminated = false) (ha : s.active = 0)
    (hd : s.dealt = 0) (hk : s.taken = 0) (hclk : s.turn.totalAV = 0) :
    Post cfg xinit (run cfg fuel qfuel s) (fun s' _ => exitReason cfg s' = none) := by
  unfold run
  dsimp only
  have h := start_post (cfg := cfg) s hev ht ha hd hk hclk
  exact Post.ite (fun _ => h) (fun _ => turns_post qfuel fuel _ h)

/-- **C09 over whole runs** (the statement of `Props/C09Stream.lean`, with its hypotheses spelled out) -/
theorem exit_stream (cfg : Cfg) (fuel qfuel : Nat) (s : S Rat) (hev : s.evs = []) (ht0 : s.terminated = false)
    (ha : s.active = 0) (hd : s.dealt = 0) (hk : s.taken = 0) (hclk : s.turn.totalAV = 0)
    (ht : (run cfg fuel qfuel s).terminated = true) (he : (run cfg fuel qfuel s).err = none) :
    ∃ x, Proto.exitRun cfg.nchars (cfg.nchars + cfg.nenemies) cfg.cycles
          ({ clock := 0, dealt := 0, taken := 0 } : Proto.XSt Rat) (run cfg fuel qfuel s).evs.reverse = .ok x ∧
      x.terminated = true ∧ x.clock = (run cfg fuel qfuel s).turn.totalAV ∧
      x.dealt = (run cfg fuel qfuel s).dealt ∧ x.taken = (run cfg fuel qfuel s).taken := by
  rcases run_post (cfg := cfg) fuel qfuel s hev ht0 ha hd hk hclk with h | ⟨x, hx, hc, _⟩
  · rw [he] at h; cases h
  · exact ⟨x, hx, hc.term.trans ht, hc.clock, hc.dealt, hc.taken⟩

end Sim
