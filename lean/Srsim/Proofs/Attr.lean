import Srsim.Model.Attr
import Srsim.Spec.AttrSpec
import Srsim.Proofs.NumRat
/-! Helper lemmas for the attribute model (C07). -/
namespace Attr

abbrev U := Unit Rat
abbrev S := St Rat

theorem find?_id {s : S} {id : Int} {u : U} (h : find? s id = some u) : u.id = id := by
  unfold find? at h
  have := List.find?_some h
  simpa using this

theorem find?_mem {s : S} {id : Int} {u : U} (h : find? s id = some u) : u ∈ s.units := by
  unfold find? at h
  exact List.mem_of_find?_eq_some h

theorem find?_map_replace (l : List U) (u : U) (id : Int) :
    (l.map fun v => if v.id == u.id then u else v).find? (fun x => x.id == id) =
      if id = u.id then (if (l.find? (fun x => x.id == id)).isSome then some u else none)
      else l.find? (fun x => x.id == id) := by
  induction l with
  | nil => simp
  | cons v vs ih =>
    rw [List.map_cons, List.find?_cons, List.find?_cons, ih]
    by_cases hi : id = u.id
    · subst hi
      by_cases hv : v.id = u.id
      · have hb : (v.id == u.id) = true := by simpa using hv
        simp [hb]
      · have hb : (v.id == u.id) = false := by simpa using hv
        simp [hb]
    · have h1 : (u.id == id) = false := by simpa using fun (h : u.id = id) => hi h.symm
      by_cases hv : v.id = u.id
      · have hb : (v.id == u.id) = true := by simpa using hv
        have h2 : (v.id == id) = false := by simpa using fun (h : v.id = id) => hi (h.symm.trans hv)
        simp [hb, hi, h1, h2]
      · have hb : (v.id == u.id) = false := by simpa using hv
        by_cases hvi : v.id = id
        · have h3 : (v.id == id) = true := by simpa using hvi
          simp [hb, hi, h3]
        · have h3 : (v.id == id) = false := by simpa using hvi
          simp [hb, hi, h3]

/-- replacing the unit with id `u.id` : lookups of other ids are unaffected, the lookup of
`u.id` returns the new record when the id was known. -/
theorem find?_setUnit (s : S) (u : U) (id : Int) :
    find? (setUnit s u) id =
      if id = u.id then (if (find? s id).isSome then some u else none) else find? s id := by
  unfold find? setUnit
  exact find?_map_replace s.units u id

theorem find?_setUnit_self {s : S} {u u' : U} (h : find? s u.id = some u') :
    find? (setUnit s u) u.id = some u := by
  rw [find?_setUnit]; simp [h]

theorem find?_setUnit_ne {s : S} {u : U} {id : Int} (h : id ≠ u.id) :
    find? (setUnit s u) id = find? s id := by
  rw [find?_setUnit]; simp [h]

theorem mem_setUnit {s : S} {u v : U} (h : v ∈ (setUnit s u).units) : v = u ∨ v ∈ s.units := by
  unfold setUnit at h
  simp only [List.mem_map] at h
  obtain ⟨w, hw, rfl⟩ := h
  split
  · left; rfl
  · right; exact hw

theorem setUnit_sp (s : S) (u : U) : (setUnit s u).sp = s.sp := rfl

theorem clamp01_range (x : Rat) : 0 ≤ clamp01 x ∧ clamp01 x ≤ 1 := by
  unfold clamp01
  split_ifs <;> simp at * <;> constructor <;> linarith

end Attr

namespace Attr

theorem inv_setUnit {s : S} {u : U} (h : Inv s) (hu : UnitRange u) : Inv (setUnit s u) := by
  refine ⟨?_, h.2⟩
  intro v hv
  rcases mem_setUnit hv with rfl | hv
  · exact hu
  · exact h.1 v hv

theorem clampTo_range (amt hi : Rat) (h : 0 ≤ hi) : 0 ≤ clampTo amt hi ∧ clampTo amt hi ≤ hi := by
  unfold clampTo
  split_ifs <;> simp at * <;> (try constructor) <;> linarith

theorem clampSP_range (n : Int) : 0 ≤ clampSP n ∧ clampSP n ≤ 5 := by
  unfold clampSP; split_ifs <;> omega

theorem hpUnit_range {u : U} (src : Int) (o n : Rat) (dmg : Bool)
    (hu : UnitRange u) (h0 : 0 ≤ n) (h1 : n ≤ 1) : UnitRange (hpUnit u src o n dmg) := by
  unfold hpUnit
  split_ifs <;> exact ⟨h0, h1, hu.2.2⟩

theorem emitHP_inv {s : S} {u : U} (src : Int) (o n : Rat) (dmg : Bool)
    (h : Inv s) (hu : UnitRange u) (h0 : 0 ≤ n) (h1 : n ≤ 1) : Inv (emitHP s u src o n dmg).1 :=
  inv_setUnit h (hpUnit_range src o n dmg hu h0 h1)

theorem setHPU_inv {s : S} {u : U} (src : Int) (amt : Rat) (dmg : Bool)
    (h : Inv s) (hu : UnitRange u) : Inv (setHPU s u src amt dmg).1 :=
  emitHP_inv _ _ _ _ h hu (clamp01_range _).1 (clamp01_range _).2

theorem setEnergyU_inv {s : S} {u : U} (src : Int) (amt : Rat)
    (h : Inv s) (hu : UnitRange u) : Inv (setEnergyU s u src amt).1 := by
  obtain ⟨a, b, c, d, e, f⟩ := hu
  have hr := clampTo_range amt u.maxEnergy (le_trans c d)
  exact inv_setUnit h ⟨a, b, hr.1, hr.2, e, f⟩

theorem setStanceU_inv {s : S} {u : U} (src : Int) (amt : Rat)
    (h : Inv s) (hu : UnitRange u) : Inv (setStanceU s u src amt).1 := by
  have hu' := hu
  obtain ⟨a, b, c, d, e, f⟩ := hu
  have hr := clampTo_range amt u.maxStance (le_trans e f)
  apply inv_setUnit h
  split_ifs
  · exact hu'
  · exact ⟨a, b, c, d, hr.1, hr.2⟩

theorem step_inv {s : S} (op : Op Rat) (h : Inv s) (hv : OpValid op) : Inv (step s op).1 := by
  cases op with
  | add u =>
    simp only [step]
    split
    · exact h
    · refine ⟨?_, h.2⟩
      intro v hv'
      simp only [List.mem_append, List.mem_singleton] at hv'
      rcases hv' with hv' | rfl
      · exact h.1 v hv'
      · obtain ⟨h1, h2, h3, h4, h5⟩ := hv
        refine ⟨?_, ?_, ?_, ?_, h4, h5⟩ <;> (simp only; split_ifs <;> simp at * <;> linarith)
  | props id a b c d e f g =>
    simp only [step]
    split
    · exact h
    · rename_i u hf
      exact inv_setUnit h (h.1 u (find?_mem hf))
  | revive id on =>
    simp only [step]
    split
    · exact h
    · rename_i u hf
      exact inv_setUnit h (h.1 u (find?_mem hf))
  | setHP id src amt dmg =>
    simp only [step]
    split
    · exact h
    · rename_i u hf
      by_cases hd : u.life = .dead
      · rw [if_pos hd]; exact h
      · rw [if_neg hd]; exact setHPU_inv _ _ _ h (h.1 u (find?_mem hf))
  | modHP id src amt dmg =>
    simp only [step]
    split
    · exact h
    · rename_i u hf
      by_cases hd : u.life = .dead
      · rw [if_pos hd]; exact h
      · rw [if_neg hd]
        exact emitHP_inv _ _ _ _ h (h.1 u (find?_mem hf)) (clamp01_range _).1 (clamp01_range _).2
  | modHPRatio id src ratio typ floor dmg =>
    simp only [step]
    split
    · exact h
    · rename_i u hf
      have hu := h.1 u (find?_mem hf)
      by_cases hd : u.life = .dead
      · rw [if_pos hd]; exact h
      · rw [if_neg hd]
        split_ifs
        · exact setHPU_inv _ _ _ h hu
        · exact emitHP_inv _ _ _ _ h hu (clamp01_range _).1 (clamp01_range _).2
        · exact setHPU_inv _ _ _ h hu
        · exact emitHP_inv _ _ _ _ h hu (clamp01_range _).1 (clamp01_range _).2
        · exact h
  | setEnergy id src amt =>
    simp only [step]
    split
    · exact h
    · rename_i u hf; exact setEnergyU_inv _ _ h (h.1 u (find?_mem hf))
  | modEnergy id src amt =>
    simp only [step]
    split
    · exact h
    · rename_i u hf; exact setEnergyU_inv _ _ h (h.1 u (find?_mem hf))
  | modEnergyFixed id src amt =>
    simp only [step]
    split
    · exact h
    · rename_i u hf; exact setEnergyU_inv _ _ h (h.1 u (find?_mem hf))
  | setStance id src amt =>
    simp only [step]
    split
    · exact h
    · rename_i u hf; exact setStanceU_inv _ _ h (h.1 u (find?_mem hf))
  | modStance id src amt =>
    simp only [step]
    split
    · exact h
    · rename_i u hf; exact setStanceU_inv _ _ h (h.1 u (find?_mem hf))
  | modSP src amt =>
    simp only [step]
    exact ⟨h.1, (clampSP_range _).1, (clampSP_range _).2⟩

end Attr

namespace Attr

/-! ### exactness of change reports -/

theorem find?_setUnit' {s : S} {u u' : U} (hf : find? s u.id = some u) (hid : u'.id = u.id) (id : Int) :
    find? (setUnit s u') id = if id = u.id then some u' else find? s id := by
  rw [find?_setUnit, hid]
  by_cases h : id = u.id
  · subst h; simp [hf]
  · simp [h]

theorem hpUnit_id (u : U) (src : Int) (o n : Rat) (dmg : Bool) : (hpUnit u src o n dmg).id = u.id := by
  unfold hpUnit; split_ifs <;> rfl
theorem hpUnit_hp (u : U) (src : Int) (o n : Rat) (dmg : Bool) : (hpUnit u src o n dmg).hpRatio = n := by
  unfold hpUnit; split_ifs <;> rfl
theorem hpUnit_energy (u : U) (src : Int) (o n : Rat) (dmg : Bool) : (hpUnit u src o n dmg).energy = u.energy := by
  unfold hpUnit; split_ifs <;> rfl
theorem hpUnit_stance (u : U) (src : Int) (o n : Rat) (dmg : Bool) : (hpUnit u src o n dmg).stance = u.stance := by
  unfold hpUnit; split_ifs <;> rfl

theorem hpEvs_hpEvents (u : U) (o n : Rat) (dmg : Bool) (id : Int) :
    hpEvs id (hpEvents u o n dmg) = if id = u.id ∧ n ≠ o then [(o, n)] else [] := by
  unfold hpEvents hpEvs
  by_cases h : o = n
  · subst h; simp
  · have h' : ¬ n = o := fun e => h e.symm
    by_cases hi : u.id = id
    · subst hi; split_ifs <;> simp_all [hpEv?]
    · have : ¬ id = u.id := fun e => hi e.symm
      split_ifs <;> simp_all [hpEv?]

theorem energyEvs_hpEvents (u : U) (o n : Rat) (dmg : Bool) (id : Int) :
    energyEvs id (hpEvents u o n dmg) = [] := by
  unfold hpEvents energyEvs; split_ifs <;> simp [energyEv?]
theorem stanceEvs_hpEvents (u : U) (o n : Rat) (dmg : Bool) (id : Int) :
    stanceEvs id (hpEvents u o n dmg) = [] := by
  unfold hpEvents stanceEvs; split_ifs <;> simp [stanceEv?]
theorem spEvs_hpEvents (u : U) (o n : Rat) (dmg : Bool) : spEvs (hpEvents u o n dmg) = [] := by
  unfold hpEvents spEvs; split_ifs <;> simp [spEv?]

theorem exact_refl {β : Type} (b : Option β) : Exact b b [] := Or.inl ⟨rfl, rfl⟩

/-- effect of `emitHP` on the three quantities of an arbitrary unit `id` -/
theorem emitHP_exact {s : S} {u : U} (src : Int) (n : Rat) (dmg : Bool) (id : Int)
    (hf : find? s u.id = some u) :
    Exact (hpOf s id) (hpOf (emitHP s u src u.hpRatio n dmg).1 id) (hpEvs id (emitHP s u src u.hpRatio n dmg).2)
    ∧ energyOf (emitHP s u src u.hpRatio n dmg).1 id = energyOf s id
    ∧ stanceOf (emitHP s u src u.hpRatio n dmg).1 id = stanceOf s id := by
  unfold emitHP hpOf energyOf stanceOf
  simp only [find?_setUnit' hf (hpUnit_id u src u.hpRatio n dmg), hpEvs_hpEvents]
  by_cases h : id = u.id
  · subst h
    simp only [if_true, hf, Option.map_some, hpUnit_hp, hpUnit_energy, hpUnit_stance, true_and, and_true]
    by_cases hn : n = u.hpRatio
    · left; simp [hn]
    · right; exact ⟨_, _, rfl, rfl, hn, by simp [hn]⟩
  · simp only [h, if_false, false_and, and_true]
    exact exact_refl _

end Attr

