import Srsim.Spec.ModifierSpec
import Srsim.Proofs.NumRat
import Mathlib.Data.List.Perm.Basic
import Mathlib.Algebra.BigOperators.Group.List.Basic
import Mathlib.Tactic.Ring
/-!
Helper lemmas for the C06 theorems about `propTotal`: the nested folds written with a named step
function, and their closed forms with a generalised accumulator.
-/
namespace Modifier

/-- the per-entry step of `propTotal` -/
def pstep (p : Nat) (a : Rat) (q : Nat × Rat) : Rat :=
  if q.1 == p && Num.neb q.2 0 then
    (if p == 90 || p == 91 then 1 - (1 - a) * (1 - q.2) else a + q.2) else a

def sel (p : Nat) (q : Nat × Rat) : Option Rat := if q.1 == p && Num.neb q.2 0 then some q.2 else none

theorem propTotal_eq (base : List (Nat × Rat)) (l : List (Inst Rat)) (p : Nat) :
    propTotal base l p = base.foldl (pstep p) (l.foldl (fun acc i => i.stats.foldl (pstep p) acc) 0) := by
  unfold propTotal pstep
  simp only [Num.zero_rat, Num.one_rat]

theorem contribs_eq (base : List (Nat × Rat)) (l : List (Inst Rat)) (p : Nat) :
    contribs base l p = l.flatMap (fun i => i.stats.filterMap (sel p)) ++ base.filterMap (sel p) := by
  unfold contribs contrib sel
  simp only [Num.zero_rat]

theorem foldl_pstep_add (p : Nat) (hp : p ≠ 90 ∧ p ≠ 91) (l : List (Nat × Rat)) (a : Rat) :
    l.foldl (pstep p) a = a + (l.filterMap (sel p)).sum := by
  induction l generalizing a with
  | nil => simp
  | cons q r ih =>
    rw [List.foldl_cons, ih, List.filterMap_cons]
    unfold pstep sel
    have h90 : (p == 90) = false := by simpa using hp.1
    have h91 : (p == 91) = false := by simpa using hp.2
    split <;> simp [h90, h91, add_assoc]

theorem foldl_pstep_mul (p : Nat) (hp : p = 90 ∨ p = 91) (l : List (Nat × Rat)) (a : Rat) :
    1 - l.foldl (pstep p) a = (1 - a) * ((l.filterMap (sel p)).map (fun x => 1 - x)).prod := by
  induction l generalizing a with
  | nil => simp
  | cons q r ih =>
    rw [List.foldl_cons, ih, List.filterMap_cons]
    unfold pstep sel
    have h9 : (p == 90 || p == 91) = true := by rcases hp with rfl | rfl <;> rfl
    by_cases hc : (q.1 == p && Num.neb q.2 0) = true
    · simp only [hc, h9, if_true, Option.toList_some, List.map_cons, List.prod_cons, List.cons_append, List.nil_append]
      ring
    · simp only [hc, if_false, Bool.false_eq_true, Option.toList_none, List.nil_append]

theorem foldl2_pstep_add (p : Nat) (hp : p ≠ 90 ∧ p ≠ 91) (l : List (Inst Rat)) (a : Rat) :
    l.foldl (fun acc i => i.stats.foldl (pstep p) acc) a = a + (l.flatMap (fun i => i.stats.filterMap (sel p))).sum := by
  induction l generalizing a with
  | nil => simp
  | cons i r ih =>
    rw [List.foldl_cons, ih, foldl_pstep_add p hp, List.flatMap_cons, List.sum_append, add_assoc]

theorem foldl2_pstep_mul (p : Nat) (hp : p = 90 ∨ p = 91) (l : List (Inst Rat)) (a : Rat) :
    1 - l.foldl (fun acc i => i.stats.foldl (pstep p) acc) a =
      (1 - a) * ((l.flatMap (fun i => i.stats.filterMap (sel p))).map (fun x => 1 - x)).prod := by
  induction l generalizing a with
  | nil => simp
  | cons i r ih =>
    rw [List.foldl_cons, ih, foldl_pstep_mul p hp, List.flatMap_cons, List.map_append, List.prod_append, mul_assoc]

theorem contribs_perm (base : List (Nat × Rat)) (l₁ l₂ : List (Inst Rat)) (p : Nat) (h : l₁.Perm l₂) :
    (contribs base l₁ p).Perm (contribs base l₂ p) := by
  unfold contribs
  exact List.Perm.append_right _ (List.Perm.flatMap_right _ h)

end Modifier
