import Srsim.Spec.Proto
/-!
Proof of C03 (the event stream of `Sim.run` is a complete word of the protocol monitor).

`mon s` is the monitor state after the events emitted so far.  `Quiet` relates two states between
which only "other" events were emitted (the monitor does not move unless it is terminated);
`Flow` relates two states between which content ran (attack/hit brackets may have been opened and
closed, at most one attack bracket stays open and is recorded in `inAttack`).
-/
set_option linter.unusedSectionVars false
namespace Sim
variable {α : Type} [Num α]
open Proto

/-! ### the monitor over the emitted events -/

theorem runMon_append (m : Mon) (l : List (Ev α)) (e : Ev α) :
    runMon m (l ++ [e]) = (runMon m l).bind (fun m' => step m' e) := by
  induction l generalizing m with
  | nil => simp [runMon]; cases step m e <;> rfl
  | cons x xs ih =>
    simp only [List.cons_append, runMon]
    cases step m x with
    | none => rfl
    | some m' => exact ih m'

def mon (s : S α) : Option Mon := runMon {} s.evs.reverse

theorem mon_emit (s : S α) (e : Ev α) : mon (emit s e) = (mon s).bind (fun m => step m e) := by
  simp only [mon, emit, List.reverse_cons]
  exact runMon_append _ _ _

theorem mon_congr {s s' : S α} (h : s'.evs = s.evs) : mon s' = mon s := by
  simp only [mon, h]

/-- events the monitor ignores (outside stage 13) -/
def Other (e : Ev α) : Prop := ∀ m : Mon, m.stage ≠ 13 → step m e = some m

theorem other_hpChange (t : Int) (o n : α) (d : Bool) : Other (.hpChange t o n d) := by
  intro m h; simp [step, h]
theorem other_limbo (t : Int) (d : Bool) : Other (α := α) (.limbo t d) := by
  intro m h; simp [step, h]
theorem other_death (t k : Int) : Other (α := α) (.death t k) := by
  intro m h; simp [step, h]
theorem other_sp (o n : Int) : Other (α := α) (.sp o n) := by
  intro m h; simp [step, h]
theorem other_energy (t : Int) (o n : α) : Other (.energy t o n) := by
  intro m h; simp [step, h]
theorem other_pick (t : Int) : Other (α := α) (.pick t) := by
  intro m h; simp [step, h]
theorem other_mark (t : Int) (r : α) : Other (.mark t r) := by
  intro m h; simp [step, h]
theorem other_healStart (a t : Int) : Other (α := α) (.healStart a t) := by
  intro m h; simp [step, h]
theorem other_healEnd (a t : Int) : Other (α := α) (.healEnd a t) := by
  intro m h; simp [step, h]
theorem other_gauge (t o n : Int) (l : List (Int × Int)) : Other (α := α) (.gauge t o n l) := by
  intro m h; simp [step, h]

/-! ### quiet steps -/

/-- nothing the monitor or the driver's control looks at has changed -/
structure Quiet (s s' : S α) : Prop where
  active : s'.active = s.active
  term : s'.terminated = s.terminated
  atv : s'.turn.activeTurn = s.turn.activeTurn
  inAtk : s'.inAttack = s.inAttack
  mon : ∀ m, mon s = some m → m.stage ≠ 13 → mon s' = some m

theorem Quiet.refl (s : S α) : Quiet s s := ⟨rfl, rfl, rfl, rfl, fun _ h _ => h⟩

theorem Quiet.trans {s s' s'' : S α} (h : Quiet s s') (h' : Quiet s' s'') : Quiet s s'' :=
  ⟨h'.active.trans h.active, h'.term.trans h.term, h'.atv.trans h.atv, h'.inAtk.trans h.inAtk,
   fun m hm hs => h'.mon m (h.mon m hm hs) hs⟩

/-- a change of fields other than the observed ones -/
theorem Quiet.same {s s' : S α} (he : s'.evs = s.evs) (ha : s'.active = s.active)
    (ht : s'.terminated = s.terminated) (hat : s'.turn.activeTurn = s.turn.activeTurn)
    (hi : s'.inAttack = s.inAttack) : Quiet s s' :=
  ⟨ha, ht, hat, hi, fun m hm _ => by rw [mon_congr he]; exact hm⟩

theorem Quiet.emit {s s' : S α} (h : Quiet s s') {e : Ev α} (he : Other e) : Quiet s (emit s' e) :=
  ⟨h.active, h.term, h.atv, h.inAtk, fun m hm hs => by
    rw [mon_emit, h.mon m hm hs]; exact he m hs⟩

theorem Quiet.setUnit {s s' : S α} (h : Quiet s s') (u : U α) : Quiet s (setUnit s' u) :=
  h.trans (Quiet.same rfl rfl rfl rfl rfl)

theorem Quiet.modUnit {s s' : S α} (h : Quiet s s') (id : Int) (f : U α → U α) :
    Quiet s (modUnit s' id f) :=
  h.trans (Quiet.same rfl rfl rfl rfl rfl)

theorem Quiet.enqueue {s s' : S α} (h : Quiet s s') (src prio : Int) (ab : Bool) (k : TaskKind) :
    Quiet s (enqueue s' src prio ab k) :=
  h.trans (Quiet.same rfl rfl rfl rfl rfl)

theorem Quiet.foldl {β : Type} (f : S α → β → S α) (hf : ∀ s x, Quiet s (f s x)) (l : List β) (s : S α) :
    Quiet s (l.foldl f s) := by
  induction l generalizing s with
  | nil => exact Quiet.refl s
  | cons x xs ih => exact (hf s x).trans (ih (f s x))

theorem hpSet_quiet (s : S α) (t : Int) (r : α) (src : Int) (d : Bool) : Quiet s (hpSet s t r src d) := by
  unfold hpSet
  split
  · exact Quiet.refl s
  · split
    · exact Quiet.refl s
    · split
      · exact Quiet.refl s
      · split
        · exact ((Quiet.refl s).setUnit _).emit (other_hpChange _ _ _ _)
        · split
          · exact (((((Quiet.refl s).setUnit _).emit (other_hpChange _ _ _ _)).enqueue _ _ _ _).emit
              (other_limbo _ _))
          · exact ((((Quiet.refl s).setUnit _).emit (other_hpChange _ _ _ _))).emit (other_limbo _ _)

theorem collect_quiet (cfg : Cfg) (s : S α) (d : Int) (tot : α) : Quiet s (collect cfg s d tot) := by
  unfold collect
  simp only []
  split
  · exact Quiet.same rfl rfl rfl rfl rfl
  · exact Quiet.refl s

theorem hpPrim_quiet (s : S α) (t src : Int) : Quiet s (hpPrim s t src) := by
  unfold hpPrim
  exact ((Quiet.same (s := s) (s' := { s with markN := s.markN + 1 }) rfl rfl rfl rfl rfl).trans
    (hpSet_quiet _ _ _ _ _)).emit (other_mark _ _)

theorem heal_quiet (s : S α) (src t : Int) : Quiet s (heal s src t) := by
  unfold heal
  simp only []
  split
  · exact ((((Quiet.same (s := s) (s' := { s with markN := s.markN + 1 }) rfl rfl rfl rfl rfl).emit
      (other_healStart _ _)).trans (hpSet_quiet _ _ _ _ _)).emit (other_healEnd _ _)).emit (other_mark _ _)
  · exact (Quiet.same (s := s) (s' := { s with markN := s.markN + 1 }) rfl rfl rfl rfl rfl).emit
      (other_mark _ _)

theorem modifySP_quiet (s : S α) (amt : Int) : Quiet s (modifySP s amt) := by
  unfold modifySP
  split
  · exact Quiet.refl s
  · exact (Quiet.same (s := s) (s' := { s with sp := clampSP (s.sp + amt) }) rfl rfl rfl rfl rfl).emit
      (other_sp _ _)

theorem setEnergy_quiet (s : S α) (t : Int) (amt : α) : Quiet s (setEnergy s t amt) := by
  unfold setEnergy
  split
  · exact Quiet.refl s
  · simp only []
    repeat' split
    all_goals first
      | exact (Quiet.refl s).setUnit _
      | exact ((Quiet.refl s).setUnit _).emit (other_energy _ _ _)

theorem setGaugeI_at (st : Turn.St α) (id g : Int) : (Turn.setGaugeI st id g).1.activeTurn = st.activeTurn := by
  unfold Turn.setGaugeI
  split
  · rfl
  · split <;> rfl

theorem setGauge_quiet (s : S α) (t : Int) (amt : α) : Quiet s (setGauge s t amt) := by
  unfold setGauge
  simp only []
  refine Quiet.trans (s' := { s with turn := (Turn.step s.turn (.setGauge t amt)).1 }) ?_ ?_
  · exact Quiet.same rfl rfl rfl (by simp only [Turn.step]; exact setGaugeI_at _ _ _) rfl
  · apply Quiet.foldl
    intro s e
    split
    · exact (Quiet.refl s).emit (other_gauge _ _ _ _)
    · exact Quiet.refl s

theorem insertAction_quiet (cfg : Cfg) (s : S α) (t : Int) : Quiet s (insertAction cfg s t) := by
  unfold insertAction
  exact (Quiet.refl s).enqueue _ _ _ _

theorem energyOnDeath_quiet (s : S α) (k : Int) : Quiet s (energyOnDeath s k) := by
  unfold energyOnDeath
  split
  · exact setEnergy_quiet _ _ _
  · exact Quiet.refl s

theorem remove_at (st : Turn.St α) (id : Int) : (Turn.step st (.remove id)).1.activeTurn = st.activeTurn := by
  simp only [Turn.step]
  split <;> rfl

theorem deathCheck_quiet (s : S α) (k : Bool) : Quiet s (deathCheck s k) := by
  unfold deathCheck
  refine Quiet.trans (Quiet.same (s' := { s with
      chars := s.chars.filter (fun id => !willDie s k id),
      enemies := s.enemies.filter (fun id => !willDie s k id) }) rfl rfl rfl rfl rfl) ?_
  · apply Quiet.foldl
    intro s t
    refine Quiet.emit ?_ (other_death _ _)
    exact (Quiet.same (s := s) (s' := { s with turn := (Turn.step s.turn (.remove t)).1 }) rfl rfl rfl
      (remove_at _ _) rfl).trans (energyOnDeath_quiet _ _)

theorem ultCheck_quiet (cfg : Cfg) (s : S α) : Quiet s (ultCheck cfg s) := by
  unfold ultCheck
  refine Quiet.trans (s' := { s with ultCalls := s.ultCalls + 1 }) ?_ ?_
  · exact Quiet.same rfl rfl rfl rfl rfl
  · apply Quiet.foldl
    intro s a
    split
    · exact Quiet.refl s
    · split
      · exact Quiet.same rfl rfl rfl rfl rfl
      · split
        · exact Quiet.refl s
        · split
          · exact ((Quiet.refl s).enqueue _ _ _ _).trans (setEnergy_quiet _ _ _)
          · exact Quiet.refl s

/-! ### content steps: attack and hit brackets -/

def atkStack : Option (Int × Nat) → List Br
  | some (a, ty) => [.attack a ty]
  | none => []

/-- the bracket under the attack bracket (an action or an insert, or nothing) -/
def NB : List Br → Prop
  | [] => True
  | b :: _ => isAttackOrHit b = false

def Ok (s : S α) (stage : Nat) (base : List Br) : Prop :=
  mon s = some ⟨stage, s.active, atkStack s.inAttack ++ base⟩

structure Flow (s s' : S α) : Prop where
  active : s'.active = s.active
  term : s'.terminated = s.terminated
  atv : s'.turn.activeTurn = s.turn.activeTurn
  ok : ∀ stage base, stage ≠ 13 → NB base → Ok s stage base → Ok s' stage base

/-- `Flow` that keeps `inAttack` -/
def FlowK (s s' : S α) : Prop := Flow s s' ∧ s'.inAttack = s.inAttack

theorem Flow.refl (s : S α) : Flow s s := ⟨rfl, rfl, rfl, fun _ _ _ _ h => h⟩

theorem Flow.trans {s s' s'' : S α} (h : Flow s s') (h' : Flow s' s'') : Flow s s'' :=
  ⟨h'.active.trans h.active, h'.term.trans h.term, h'.atv.trans h.atv,
   fun st b hs hb hok => h'.ok st b hs hb (h.ok st b hs hb hok)⟩

theorem Quiet.flow {s s' : S α} (h : Quiet s s') : Flow s s' :=
  ⟨h.active, h.term, h.atv, fun st b hs _ hok => by
    unfold Ok at *
    rw [h.active, h.inAtk]
    exact h.mon _ hok hs⟩

theorem Quiet.flowK {s s' : S α} (h : Quiet s s') : FlowK s s' := ⟨h.flow, h.inAtk⟩

theorem FlowK.refl (s : S α) : FlowK s s := ⟨Flow.refl s, rfl⟩

theorem FlowK.trans {s s' s'' : S α} (h : FlowK s s') (h' : FlowK s' s'') : FlowK s s'' :=
  ⟨h.1.trans h'.1, h'.2.trans h.2⟩

theorem Flow.foldl {β : Type} (f : S α → β → S α) (hf : ∀ s x, Flow s (f s x)) (l : List β) (s : S α) :
    Flow s (l.foldl f s) := by
  induction l generalizing s with
  | nil => exact Flow.refl s
  | cons x xs ih => exact (hf s x).trans (ih (f s x))

theorem FlowK.foldl {β : Type} (f : S α → β → S α) (hf : ∀ s x, FlowK s (f s x)) (l : List β) (s : S α) :
    FlowK s (l.foldl f s) := by
  induction l generalizing s with
  | nil => exact FlowK.refl s
  | cons x xs ih => exact (hf s x).trans (ih (f s x))

theorem isHit_of_nb {b : Br} (h : isAttackOrHit b = false) : isHit b = false := by
  cases b <;> simp_all [isAttackOrHit, isHit]

theorem hit_flowK (cfg : Cfg) (s : S α) (src tgt : Int) : FlowK s (hit cfg s src tgt) := by
  unfold hit
  simp only []
  have hq := ((hpSet_quiet (emit { s with hitN := s.hitN + 1 } (.hitStart src tgt)) tgt (s.hitO s.hitN).2 src true).trans
    (collect_quiet cfg _ tgt (s.hitO s.hitN).1))
  refine ⟨⟨hq.active, hq.term, hq.atv, ?_⟩, hq.inAtk⟩
  intro st base hs hb hok
  unfold Ok at *
  have h1 : mon (emit { s with hitN := s.hitN + 1 } (.hitStart src tgt))
      = some ⟨st, s.active, .hit src tgt :: (atkStack s.inAttack ++ base)⟩ := by
    rw [mon_emit]; change (mon s).bind _ = _; rw [hok]
    cases hia : s.inAttack with
    | some p =>
      obtain ⟨a, ty⟩ := p
      simp [step, hs, atkStack, isHit]
    | none =>
      cases base with
      | nil => simp [step, hs, atkStack]
      | cons b bs => simp [step, hs, atkStack, isHit_of_nb hb]
  have h2 := hq.mon _ h1 hs
  rw [mon_emit, h2]
  have ha : (emit (collect cfg (hpSet (emit { s with hitN := s.hitN + 1 } (.hitStart src tgt)) tgt (s.hitO s.hitN).2 src true) tgt (s.hitO s.hitN).1)
      (.hitEnd src tgt (s.hitO s.hitN).1 (s.hitO s.hitN).2)).active = s.active := hq.active
  have hi : (emit (collect cfg (hpSet (emit { s with hitN := s.hitN + 1 } (.hitStart src tgt)) tgt (s.hitO s.hitN).2 src true) tgt (s.hitO s.hitN).1)
      (.hitEnd src tgt (s.hitO s.hitN).1 (s.hitO s.hitN).2)).inAttack = s.inAttack := hq.inAtk
  rw [ha, hi]
  simp [step]

theorem counters_flowK (cfg : Cfg) (s : S α) (src : Int) (tg : List Int) : FlowK s (counters cfg s src tg) := by
  unfold counters
  refine FlowK.foldl _ (fun s t => ?_) _ _
  split
  · exact hit_flowK cfg s t src
  · exact FlowK.refl s

theorem attack_flow (cfg : Cfg) (s : S α) (src : Int) (tg : List Int) (ty : Nat) :
    Flow s (attack cfg s src tg ty) := by
  unfold attack
  split
  · exact Flow.refl s
  · simp only []
    refine Flow.trans (s' := if s.inAttack.isNone && qualified ty then
        emit { counters cfg s src tg with inAttack := some (src, ty) } (.attackStart src ty) else s) ?_
      (FlowK.foldl _ (fun s t => hit_flowK cfg s src t) _ _).1
    split
    · rename_i hc
      have hck := counters_flowK cfg s src tg
      refine Flow.trans hck.1 ?_
      have hn0 : s.inAttack = none := by
        cases hia : s.inAttack <;> simp_all
      generalize counters cfg s src tg = s at hck ⊢
      refine ⟨rfl, rfl, rfl, ?_⟩
      intro st base hs hb hok
      unfold Ok at *
      have hn : s.inAttack = none := by rw [hck.2]; exact hn0
      rw [mon_emit]; change (mon s).bind _ = _; rw [hok, hn]
      cases base with
      | nil => simp [step, hs, atkStack, emit]
      | cons b bs =>
        have hb' : isAttackOrHit b = false := hb
        simp [step, hs, atkStack, emit, hb']
    · exact Flow.refl s

theorem attack_flowK (cfg : Cfg) (s : S α) (src : Int) (tg : List Int) (ty : Nat) (hq : qualified ty = false) :
    FlowK s (attack cfg s src tg ty) := by
  unfold attack
  split
  · exact FlowK.refl s
  · simp only [hq, Bool.and_false]
    exact FlowK.foldl _ (fun s t => hit_flowK cfg s src t) _ _

theorem endAttack_flow (s : S α) : Flow s (endAttack s) ∧ (endAttack s).inAttack = none := by
  unfold endAttack
  split
  · rename_i a ty hia
    refine ⟨⟨rfl, rfl, rfl, ?_⟩, rfl⟩
    intro st base hs hb hok
    unfold Ok at *
    rw [mon_emit]; change (mon s).bind _ = _; rw [hok, hia]
    simp [step, atkStack, emit]
  · rename_i hia
    exact ⟨Flow.refl s, hia⟩

theorem endAttack_quiet (s : S α) (h : s.inAttack = none) : Quiet s (endAttack s) := by
  unfold endAttack
  rw [h]
  exact Quiet.refl s

/-- every engine call except opening and closing an attack -/
theorem runCmd_quiet (cfg : Cfg) (s : S α) (c : Cmd) (src pt : Int) (hA : c.op ≠ 'A') (hE : c.op ≠ 'E') :
    Quiet s (runCmd cfg s c src pt) := by
  unfold runCmd
  rw [if_neg (by simpa using hA), if_neg (by simpa using hE)]
  split
  · exact Quiet.foldl _ (fun s t => heal_quiet s src t) _ _
  split
  · exact Quiet.foldl _ (fun s t => hpPrim_quiet s t src) _ _
  split
  · exact (Quiet.refl s).enqueue _ _ _ _
  split
  · exact Quiet.foldl _ (fun s t => insertAction_quiet cfg s t) _ _
  split
  · exact Quiet.foldl _ (fun s t => setGauge_quiet s t _) _ _
  split
  · apply Quiet.foldl
    intro s t
    split
    · exact setEnergy_quiet _ _ _
    · exact Quiet.refl s
  split
  · exact Quiet.foldl _ (fun s t => (Quiet.refl s).modUnit _ _) _ _
  split
  · exact Quiet.foldl _ (fun s t => (Quiet.refl s).modUnit _ _) _ _
  split
  · exact modifySP_quiet _ _
  · exact Quiet.refl s

theorem runCmd_flow (cfg : Cfg) (s : S α) (c : Cmd) (src pt : Int) : Flow s (runCmd cfg s c src pt) := by
  by_cases hA : c.op = 'A'
  · unfold runCmd
    rw [if_pos (by simpa using hA)]
    exact Flow.foldl _ (fun s _ => attack_flow cfg s src _ _) _ _
  · by_cases hE : c.op = 'E'
    · unfold runCmd
      rw [if_neg (by simpa using hA), if_pos (by simpa using hE)]
      exact (endAttack_flow s).1
    · exact (runCmd_quiet cfg s c src pt hA hE).flow

theorem runProg_flow (cfg : Cfg) (s : S α) (p : Nat) (src pt : Int) : Flow s (runProg cfg s p src pt) := by
  unfold runProg
  exact Flow.foldl _ (fun s c => runCmd_flow cfg s c src pt) _ _

/-- a program without attacks, started outside an attack -/
theorem runCmds_quiet (cfg : Cfg) (l : List Cmd) (s : S α) (src pt : Int) (hA : ∀ c ∈ l, c.op ≠ 'A')
    (hi : s.inAttack = none) : Quiet s (l.foldl (fun s c => runCmd cfg s c src pt) s) := by
  induction l generalizing s with
  | nil => exact Quiet.refl s
  | cons c cs ih =>
    have h1 : Quiet s (runCmd cfg s c src pt) := by
      by_cases hE : c.op = 'E'
      · unfold runCmd
        rw [if_neg (by simpa using hA c (List.mem_cons_self ..)), if_pos (by simpa using hE)]
        exact endAttack_quiet s hi
      · exact runCmd_quiet cfg s c src pt (hA c (List.mem_cons_self ..)) hE
    exact h1.trans (ih _ (fun c hc => hA c (List.mem_cons_of_mem _ hc)) (h1.inAtk.trans hi))

/-! ### bracketed units -/

/-- between two units of work: no bracket open, not terminated -/
structure Good (s : S α) (stage : Nat) (b : Bool) (a : Int) : Prop where
  term : s.terminated = false
  inAtk : s.inAttack = none
  atv : s.turn.activeTurn = b
  active : s.active = a
  mon : mon s = some ⟨stage, a, []⟩

theorem Good.quiet {s s' : S α} {stage : Nat} {b : Bool} {a : Int} (h : Good s stage b a) (hs : stage ≠ 13)
    (q : Quiet s s') : Good s' stage b a :=
  ⟨q.term.trans h.term, q.inAtk.trans h.inAtk, q.atv.trans h.atv, q.active.trans h.active, q.mon _ h.mon hs⟩

theorem Good.same {s : S α} {stage : Nat} {b : Bool} {a : Int} (h : Good s stage b a) (s' : S α)
    (he : s'.evs = s.evs) (ha : s'.active = s.active)
    (ht : s'.terminated = s.terminated) (hat : s'.turn.activeTurn = s.turn.activeTurn)
    (hi : s'.inAttack = s.inAttack) : Good s' stage b a :=
  ⟨ht.trans h.term, hi.trans h.inAtk, hat.trans h.atv, ha.trans h.active, (mon_congr he).trans h.mon⟩

/-- `open`, a program, `endAttack`, `close` -/
theorem bracket {s1 s2 : S α} {stage : Nat} {b : Bool} {a : Int} {e : Ev α} (br : Br)
    (hf : Flow s1 s2) (hb : isAttackOrHit br = false) (hs : stage ≠ 13)
    (hc : step (α := α) ⟨stage, a, [br]⟩ e = some ⟨stage, a, []⟩)
    (h1 : s1.terminated = false) (h2 : s1.inAttack = none) (h3 : s1.turn.activeTurn = b) (h4 : s1.active = a)
    (hm : mon s1 = some ⟨stage, a, [br]⟩) :
    Good (emit (endAttack s2) e) stage b a := by
  have hf2 := hf.trans (endAttack_flow s2).1
  have hi := (endAttack_flow s2).2
  have hok : Ok s1 stage [br] := by
    unfold Ok; rw [h2, h4]; exact hm
  have hok2 := hf2.ok stage [br] hs hb hok
  unfold Ok at hok2
  rw [hi, hf2.active, h4] at hok2
  refine ⟨hf2.term.trans h1, hi, hf2.atv.trans h3, hf2.active.trans h4, ?_⟩
  rw [mon_emit, hok2]
  exact hc

theorem executeAction_good (cfg : Cfg) (s s' : S α) (id : Int) (ins : Bool) (stage : Nat) (b : Bool) (a : Int)
    (h : Good s stage b a) (hst : if ins then stage = 7 ∨ stage = 11 else stage = 8 ∧ id = a)
    (he : executeAction cfg s id ins = some s') :
    Good s' stage b a ∨ (ins = false ∧ Good s' 9 b a) := by
  unfold executeAction at he
  split at he
  · cases he; exact Or.inl h
  split at he
  · simp only [] at he
    split at he
    · cases he
    · rename_i pt hev
      cases he
      cases ins with
      | true =>
        left
        simp only [if_true] at hst
        have hs13 : stage ≠ 13 := by omega
        have hg := fun amt => (h.same { s with calls := fun i => if i == id then s.calls id + 1 else s.calls i }
          rfl rfl rfl rfl rfl).quiet hs13 (modifySP_quiet _ amt)
        refine bracket (.action id (if ((cfg.next id (s.calls id)).typ == 1 && decide (s.sp ≥ (cfg.kind id).spNeed)) = true then 2 else 1) true) (runProg_flow _ _ _ _ _) rfl hs13 ?_ (hg _).term (hg _).inAtk (hg _).atv
          (hg _).active ?_
        · simp [step]
        · rw [mon_emit, (hg _).mon]
          rcases hst with rfl | rfl <;> simp [step]
      | false =>
        right
        simp only [Bool.false_eq_true, if_false] at hst
        obtain ⟨rfl, rfl⟩ := hst
        have hg := fun amt => (h.same { s with calls := fun i => if i == id then s.calls id + 1 else s.calls i }
          rfl rfl rfl rfl rfl).quiet (by decide) (modifySP_quiet _ amt)
        refine ⟨rfl, bracket (.action id (if ((cfg.next id (s.calls id)).typ == 1 && decide (s.sp ≥ (cfg.kind id).spNeed)) = true then 2 else 1) false) (runProg_flow _ _ _ _ _) rfl (by decide) ?_
          (hg _).term (hg _).inAtk (hg _).atv (hg _).active ?_⟩
        · simp [step]
        · rw [mon_emit, (hg _).mon]
          simp [step]
  · simp only [] at he
    cases he
    cases ins with
    | true =>
      left
      simp only [if_true] at hst
      have hs13 : stage ≠ 13 := by omega
      have hg := h.same { s with pickN := s.pickN + 1 } rfl rfl rfl rfl rfl
      refine bracket (.action id 1 true) (runProg_flow _ _ _ _ _) rfl hs13 ?_ hg.term hg.inAtk hg.atv hg.active ?_
      · simp [step]
      · rw [mon_emit, mon_emit, hg.mon]
        rcases hst with rfl | rfl <;> simp [step]
    | false =>
      right
      simp only [Bool.false_eq_true, if_false] at hst
      obtain ⟨rfl, rfl⟩ := hst
      have hg := h.same { s with pickN := s.pickN + 1 } rfl rfl rfl rfl rfl
      refine ⟨rfl, bracket (.action id 1 false) (runProg_flow _ _ _ _ _) rfl (by decide) ?_
        hg.term hg.inAtk hg.atv hg.active ?_⟩
      · simp [step]
      · rw [mon_emit, mon_emit, hg.mon]
        simp [step]

theorem executeUlt_good (cfg : Cfg) (s : S α) (u : UltAsk) (stage : Nat) (b : Bool) (a : Int)
    (h : Good s stage b a) (hst : stage = 7 ∨ stage = 11) : Good (executeUlt cfg s u) stage b a := by
  have hs13 : stage ≠ 13 := by omega
  unfold executeUlt
  split
  · exact h
  split
  · exact h
  · simp only []
    refine bracket (.action u.target 3 true) (runProg_flow _ _ _ _ _) rfl hs13 ?_ h.term h.inAtk h.atv h.active ?_
    · simp [step]
    · rw [mon_emit, h.mon]
      rcases hst with rfl | rfl <;> simp [step]

theorem execTask_good (cfg : Cfg) (s : S α) (t : Task) (stage : Nat) (b : Bool) (a : Int)
    (h : Good s stage b a) (hst : stage = 7 ∨ stage = 11) : Good (execTask cfg s t) stage b a := by
  have hs13 : stage ≠ 13 := by omega
  unfold execTask
  split
  · split
    · rename_i s' he
      rcases executeAction_good cfg s s' _ true stage b a h (by simpa using hst) he with h' | h'
      · exact h'
      · exact absurd h'.1 (by decide)
    · split
      · exact h.same _ rfl rfl rfl rfl rfl
      · exact h
  · rename_i p pt _
    refine bracket (.insert t.src p t.prio) (runProg_flow _ _ _ _ _) rfl hs13 ?_ h.term h.inAtk h.atv h.active ?_
    · simp [step]
    · rw [mon_emit, h.mon]
      rcases hst with rfl | rfl <;> simp [step]
  · exact executeUlt_good cfg s _ stage b a h hst
  · rename_i o _
    simp only []
    refine bracket (.insert o reviveKey t.prio) (((hpPrim_quiet _ _ _).modUnit _ _).flow) rfl hs13 ?_
      h.term h.inAtk h.atv h.active ?_
    · simp [step]
    · rw [mon_emit, h.mon]
      rcases hst with rfl | rfl <;> simp [step]

/-! ### control -/

/-- the stream so far is a complete word -/
def Done (s : S α) : Prop := ∃ m, mon s = some m ∧ m.stage = 13 ∧ m.stack = []

/-- result of a piece of control: failed, or over with a complete word, or going on -/
def Post (s : S α) (stage : Nat) (b : Bool) (a : Int) : Prop :=
  s.err.isSome = true ∨ (s.terminated = true ∧ Done s) ∨ Good s stage b a

theorem Post.good {s : S α} {stage : Nat} {b : Bool} {a : Int} (h : Post s stage b a) (hn : stopped s = false) :
    Good s stage b a := by
  simp only [stopped, Bool.or_eq_false_iff] at hn
  rcases h with h | h | h
  · rw [hn.2] at h; cases h
  · rw [hn.1] at h; cases h.1
  · exact h

theorem Post.mono {s : S α} {stage stage' : Nat} {b b' : Bool} {a a' : Int} (h : Post s stage b a)
    (hg : Good s stage b a → Good s stage' b' a') : Post s stage' b' a' := by
  rcases h with h | h | h
  · exact Or.inl h
  · exact Or.inr (Or.inl h)
  · exact Or.inr (Or.inr (hg h))

theorem exitCheck_post (cfg : Cfg) (s : S α) (stage : Nat) (b : Bool) (a : Int) (h : Good s stage b a)
    (hst : stage = 5 ∨ stage = 7 ∨ stage = 11) : Post (exitCheck cfg s) stage b a := by
  unfold exitCheck
  split
  · rename_i r _
    refine Or.inr (Or.inl ⟨rfl, (⟨13, a, []⟩ : Mon), ?_, rfl, rfl⟩)
    change mon (emit s (.termination r s.turn.totalAV)) = _
    rw [mon_emit, h.mon]
    rcases hst with rfl | rfl | rfl <;> simp [step]
  · exact Or.inr (Or.inr h)

theorem queueLoop_post (cfg : Cfg) (stage : Nat) (b : Bool) (a : Int) (hst : stage = 7 ∨ stage = 11) :
    ∀ (f : Nat) (s : S α), Good s stage b a → Post (queueLoop cfg f s) stage b a := by
  have hs13 : stage ≠ 13 := by omega
  have hst' : stage = 5 ∨ stage = 7 ∨ stage = 11 := Or.inr hst
  intro f
  induction f with
  | zero => intro s _; unfold queueLoop; exact Or.inl rfl
  | succ f ih =>
    intro s h
    unfold queueLoop
    split
    · exact Or.inr (Or.inr h)
    · rename_i t q _
      have hq : Good { s with queue := q } stage b a := h.same _ rfl rfl rfl rfl rfl
      split
      · exact exitCheck_post cfg s stage b a h hst'
      split
      · exact ih _ hq
      split <;> split <;> first | exact ih _ hq | skip
      all_goals
        simp only []
        have h1 : Post (exitCheck cfg (deathCheck (execTask cfg { s with queue := q } t) false)) stage b a :=
          exitCheck_post cfg _ stage b a
            ((execTask_good cfg _ t stage b a hq hst).quiet hs13 (deathCheck_quiet _ _)) hst'
        split
        · exact h1
        · rename_i hn1
          have g1 := h1.good (by simpa using hn1)
          have g2 := g1.quiet hs13 (ultCheck_quiet cfg _)
          split
          · exact Or.inr (Or.inr g2)
          · exact ih _ g2

theorem executeQueue_post (cfg : Cfg) (f : Nat) (s : S α) (early : Bool) (stage : Nat) (b : Bool) (a : Int)
    (h : Good s stage b a)
    (hst : stage = 7 ∨ stage = 11 ∨ (stage = 5 ∧ early = true ∧ isCharId cfg a = false)) :
    Post (executeQueue cfg f s early) stage b a := by
  have hs13 : stage ≠ 13 := by omega
  have g1 := h.quiet hs13 (ultCheck_quiet cfg s)
  unfold executeQueue
  simp only []
  split
  · exact Or.inr (Or.inr g1)
  split
  · exact exitCheck_post cfg _ stage b a g1 (by omega)
  · rename_i hc
    rcases hst with hst | hst | ⟨_, he, ha⟩
    · exact queueLoop_post cfg stage b a (Or.inl hst) f _ g1
    · exact queueLoop_post cfg stage b a (Or.inr hst) f _ g1
    · rw [he, g1.active, ha] at hc
      simp at hc

theorem Post.of_stopped {s : S α} {stage stage' : Nat} {b b' : Bool} {a a' : Int} (h : Post s stage b a)
    (hs : stopped s = true) : Post s stage' b' a' := by
  rcases h with h | h | h
  · exact Or.inl h
  · exact Or.inr (Or.inl h)
  · simp only [stopped, Bool.or_eq_true] at hs
    rcases hs with hs | hs
    · rw [h.term] at hs; cases hs
    · exact Or.inl hs

theorem Good.emit {s : S α} {stage : Nat} {b : Bool} {a : Int} (h : Good s stage b a) (e : Ev α) (stage' : Nat)
    (hc : step (α := α) ⟨stage, a, []⟩ e = some ⟨stage', a, []⟩) : Good (emit s e) stage' b a :=
  ⟨h.term, h.inAtk, h.atv, h.active, by rw [mon_emit, h.mon]; exact hc⟩

theorem tickPhase2_quiet (s : S α) : Quiet s (tickPhase2 s) := by
  unfold tickPhase2
  split
  · split
    · exact hpPrim_quiet _ _ _
    · exact Quiet.refl s
  · exact Quiet.refl s

theorem tickPhase1_flowK (cfg : Cfg) (s : S α) : FlowK s (tickPhase1 cfg s) := by
  unfold tickPhase1
  split
  · split
    · exact attack_flowK cfg s _ _ 4 rfl
    · exact FlowK.refl s
  · exact FlowK.refl s

theorem Good.flowK {s s' : S α} {stage : Nat} {b : Bool} {a : Int} (h : Good s stage b a) (hs : stage ≠ 13)
    (q : FlowK s s') : Good s' stage b a := by
  have hi : s'.inAttack = none := q.2.trans h.inAtk
  have hok : Ok s stage [] := by
    unfold Ok; rw [h.inAtk, h.active]; exact h.mon
  have hok' := q.1.ok stage [] hs trivial hok
  unfold Ok at hok'
  rw [hi, q.1.active, h.active] at hok'
  exact ⟨q.1.term.trans h.term, hi, q.1.atv.trans h.atv, q.1.active.trans h.active, hok'⟩

theorem reset_spec (st : Turn.St α) (h : st.activeTurn = true) :
    ∃ id c l, (Turn.step st .reset).2 = [.reset id c l] := by
  simp only [Turn.step, h]
  exact ⟨_, _, _, rfl⟩

theorem phase2_post (cfg : Cfg) (f : Nat) (s : S α) (stage : Nat) (a : Int) (h : Good s stage true a)
    (hst : stage = 7 ∨ stage = 8 ∨ stage = 9) : ∃ b', Post (phase2 cfg f s) 5 b' a := by
  obtain ⟨id, c, l, hr⟩ := reset_spec s.turn h.atv
  refine ⟨(Turn.step s.turn .reset).1.activeTurn, ?_⟩
  unfold phase2
  simp only [hr, List.foldl_cons, List.foldl_nil]
  have g1 : Good (emit (emit { s with turn := (Turn.step s.turn .reset).1 } (.turnReset id c (orderOf l))) .phase2Start)
      11 (Turn.step s.turn .reset).1.activeTurn a := by
    refine ⟨h.term, h.inAtk, rfl, h.active, ?_⟩
    rw [mon_emit, mon_emit]
    change ((mon s).bind _).bind _ = _
    rw [h.mon]
    rcases hst with rfl | rfl | rfl <;> simp [step]
  have p2 := executeQueue_post cfg f _ false 11 _ a g1 (Or.inr (Or.inl rfl))
  split
  · rename_i hs
    exact p2.of_stopped hs
  · rename_i hn
    have g2 := p2.good (by simpa using hn)
    have g3 := (g2.quiet (by decide) (tickPhase2_quiet _)).emit .phase2End 12 (by simp [step])
    have g4 := (g3.quiet (by decide) (deathCheck_quiet _ true)).emit .turnEnd 5 (by simp [step])
    exact exitCheck_post cfg _ 5 _ a g4 (Or.inl rfl)

theorem start_spec (st : Turn.St α) {id : Int} {av : α} {l : List (Int × Int × α)} {total : α}
    (h : (Turn.step st .start).2 = [.started id av l total]) : (Turn.step st .start).1.activeTurn = true := by
  simp only [Turn.step] at h ⊢
  split at h
  · cases h
  · split at h
    · cases h
    · split
      · contradiction
      · rfl

/-- the result of a turn: failed, over, or between turns -/
def PostT (s : S α) : Prop := ∃ b a, Post s 5 b a

theorem turn_post (cfg : Cfg) (f : Nat) (s : S α) (b : Bool) (a : Int) (h : Good s 5 b a) :
    PostT (turn cfg f s) := by
  unfold turn
  simp only []
  split
  · rename_i id av st total hr
    have hat := start_spec s.turn hr
    have g1 : Good (emit (emit { s with turn := (Turn.step s.turn .start).1, active := id }
        (.turnStart id av total (orderOf st))) .phase1Start) 7 true id := by
      refine ⟨h.term, h.inAtk, hat, rfl, ?_⟩
      rw [mon_emit, mon_emit]
      change ((mon s).bind _).bind _ = _
      rw [h.mon]
      simp [step]
    have g2 := (g1.flowK (by decide) (tickPhase1_flowK cfg _)).quiet (by decide) (deathCheck_quiet _ false)
    have hA : PostT (phase2 cfg f (deathCheck (tickPhase1 cfg (emit (emit
        { s with turn := (Turn.step s.turn .start).1, active := id }
        (.turnStart id av total (orderOf st))) .phase1Start)) false)) := by
      obtain ⟨b', hp⟩ := phase2_post cfg f _ 7 id g2 (Or.inl rfl)
      exact ⟨b', id, hp⟩
    split <;> first | exact hA | skip
    all_goals
      have p3 := executeQueue_post cfg f _ true 7 true id g2 (Or.inl rfl)
      split
      · rename_i hs
        exact ⟨true, id, p3.of_stopped hs⟩
      · rename_i hn
        have g3 := p3.good (by simpa using hn)
        have g4 := g3.emit .phase1End 8 (by simp [step])
        split
        · exact ⟨true, id, Or.inl rfl⟩
        · rename_i s4 he
          have hst : Good s4 8 true id ∨ Good s4 9 true id := by
            rcases executeAction_good cfg _ s4 id false 8 true id g4 (by simp) he with h' | h'
            · exact Or.inl h'
            · exact Or.inr h'.2
          rcases hst with h' | h'
          · obtain ⟨b', hp⟩ := phase2_post cfg f _ 8 id (h'.quiet (by decide) (deathCheck_quiet _ false))
              (Or.inr (Or.inl rfl))
            exact ⟨b', id, hp⟩
          · obtain ⟨b', hp⟩ := phase2_post cfg f _ 9 id (h'.quiet (by decide) (deathCheck_quiet _ false))
              (Or.inr (Or.inr rfl))
            exact ⟨b', id, hp⟩
  · exact ⟨b, a, Or.inl rfl⟩

theorem turns_post (cfg : Cfg) (qf : Nat) : ∀ (f : Nat) (s : S α), PostT s → PostT (turns cfg qf f s) := by
  intro f
  induction f with
  | zero =>
    intro s h
    unfold turns
    split
    · exact h
    · exact ⟨false, 0, Or.inl rfl⟩
  | succ f ih =>
    intro s h
    unfold turns
    split
    · exact h
    · rename_i hn
      obtain ⟨b, a, hp⟩ := h
      exact ih _ (turn_post cfg qf s b a (hp.good (by simpa using hn)))

theorem start_tail (cfg : Cfg) (s3 : S α) (b : Bool) (h : Good s3 4 b 0) :
    Post (executeQueue cfg 0 (emit s3 .battleStart) true) 5 b 0 :=
  executeQueue_post cfg 0 _ true 5 b 0 (h.emit .battleStart 5 (by simp [step]))
    (Or.inr (Or.inr ⟨rfl, rfl, by simp [isCharId]⟩))

theorem good4 (s2 : S α) (b : Bool) (ids cs es : List Int) (ord : List (Int × Int)) (evs0 : List (Ev α))
    (h1 : s2.terminated = false) (h2 : s2.inAttack = none) (h3 : s2.active = 0) (h4 : s2.turn.activeTurn = b)
    (hev0 : evs0 = [])
    (hev : s2.evs = .targetsAdded ids ord :: .enemiesAdded es :: .charsAdded cs :: .initialize :: evs0) :
    Good s2 4 b 0 := by
  refine ⟨h1, h2, h4, h3, ?_⟩
  simp [mon, hev, hev0, runMon, step]

theorem start_post (cfg : Cfg) (s : S α) (hev : s.evs = []) (hi : s.inAttack = none)
    (ht : s.terminated = false) (ha : s.active = 0)
    (hs : ∀ p, cfg.start = some p → ∀ c ∈ cfg.progs p, c.op ≠ 'A') : PostT (start cfg s) := by
  refine ⟨s.turn.activeTurn, 0, ?_⟩
  unfold start
  simp only [Turn.step, List.foldl_cons, List.foldl_nil]
  apply start_tail
  split
  · rename_i p c _ e _ hp _ _
    have key : ∀ X : S α, X.inAttack = none → Good X 4 s.turn.activeTurn 0 →
        Good (runProg cfg X p c e) 4 s.turn.activeTurn 0 := fun X hX g =>
      g.quiet (by decide) (by unfold runProg; exact runCmds_quiet cfg _ _ _ _ (hs p hp) hX)
    apply key
    · exact hi
    · exact good4 _ _ _ _ _ _ s.evs ht hi ha rfl hev rfl
  · exact good4 _ _ _ _ _ _ s.evs ht hi ha rfl hev rfl

theorem run_post (cfg : Cfg) (f qf : Nat) (s : S α) (hev : s.evs = []) (hi : s.inAttack = none)
    (ht : s.terminated = false) (ha : s.active = 0)
    (hs : ∀ p, cfg.start = some p → ∀ c ∈ cfg.progs p, c.op ≠ 'A') : PostT (run cfg f qf s) := by
  unfold run
  simp only []
  split
  · exact start_post cfg s hev hi ht ha hs
  · exact turns_post cfg qf f _ (start_post cfg s hev hi ht ha hs)

theorem accepts_of_postT (s : S α) (h : PostT s) (ht : s.terminated = true) (he : s.err = none) :
    Proto.accepts s.evs.reverse = true := by
  obtain ⟨b, a, h | h | h⟩ := h
  · rw [he] at h; cases h
  · obtain ⟨_, m, hm, h13, hst⟩ := h
    unfold accepts
    change (match mon s with | some m => m.stage == 13 && m.stack.isEmpty | none => false) = true
    rw [hm]
    simp [h13, hst]
  · rw [h.term] at ht; cases ht

end Sim
