import Srsim.Model.Sim
/-
Basic lemmas about the battle-driver model: unit lookup / update, and the fold of `deathCheck`.
Core Lean only.
-/
namespace Sim
set_option linter.unusedSectionVars false
variable {α : Type} [Num α]

/-! ### unit lookup and update -/

theorem find_map_ne (l : List (U α)) (u' : U α) (t : Int) (h : t ≠ u'.id) :
    (l.map fun x => if x.id == u'.id then u' else x).find? (·.id == t) = l.find? (·.id == t) := by
  induction l with
  | nil => rfl
  | cons x xs ih =>
    simp only [List.map_cons, List.find?_cons]
    by_cases hx : x.id = u'.id
    · have h1 : (u'.id == t) = false := by simp; exact fun e => h e.symm
      have h2 : (x.id == t) = false := by rw [hx]; exact h1
      have h3 : (x.id == u'.id) = true := by simp [hx]
      simp only [h3, ite_true, h1, h2]
      exact ih
    · have : (x.id == u'.id) = false := by simp [hx]
      simp only [this, ite_false, Bool.false_eq_true]
      rw [ih]

theorem find_map_eq (l : List (U α)) (u u' : U α)
    (h : l.find? (·.id == u'.id) = some u) :
    (l.map fun x => if x.id == u'.id then u' else x).find? (·.id == u'.id) = some u' := by
  induction l with
  | nil => simp at h
  | cons x xs ih =>
    simp only [List.map_cons, List.find?_cons] at h ⊢
    by_cases hx : x.id = u'.id
    · have h3 : (x.id == u'.id) = true := by simp [hx]
      have h4 : (u'.id == u'.id) = true := by simp
      simp only [h3, ite_true, h4]
    · have : (x.id == u'.id) = false := by simp [hx]
      simp only [this, ite_false, Bool.false_eq_true] at h ⊢
      exact ih h

theorem unitOf_id (s : S α) (t : Int) (u : U α) (h : unitOf s t = some u) : u.id = t := by
  unfold unitOf at h
  have := List.find?_some h
  simpa using this

theorem unitOf_setUnit_ne (s : S α) (u' : U α) (t : Int) (h : t ≠ u'.id) :
    unitOf (setUnit s u') t = unitOf s t := by
  unfold unitOf setUnit
  exact find_map_ne s.units u' t h

theorem unitOf_setUnit_eq (s : S α) (u u' : U α) (t : Int) (h : unitOf s t = some u) (hid : u'.id = t) :
    unitOf (setUnit s u') t = some u' := by
  subst hid
  unfold unitOf setUnit
  exact find_map_eq s.units u u' h

@[simp] theorem unitOf_emit (s : S α) (e : Ev α) (t : Int) : unitOf (emit s e) t = unitOf s t := rfl
@[simp] theorem unitOf_enqueue (s : S α) (a b : Int) (c : Bool) (k : TaskKind) (t : Int) :
    unitOf (enqueue s a b c k) t = unitOf s t := rfl

@[simp] theorem unitOf_collect (cfg : Cfg) (s : S α) (d : Int) (x : α) (t : Int) :
    unitOf (collect cfg s d x) t = unitOf s t := by
  unfold collect
  simp only
  split <;> rfl

/-! ### the death check -/

/-- the body of the fold of `deathCheck` -/
def dstep (s : S α) (t : Int) : S α :=
  emit (energyOnDeath { s with turn := (Turn.step s.turn (.remove t)).1 } (killerOf s t))
    (.death t (killerOf s t))

theorem deathCheck_eq (s : S α) (killLimbo : Bool) :
    deathCheck s killLimbo =
      ((s.chars.filter (willDie s killLimbo)) ++ (s.enemies.filter (willDie s killLimbo))).foldl dstep
        { s with chars := s.chars.filter (fun id => !willDie s killLimbo id),
                 enemies := s.enemies.filter (fun id => !willDie s killLimbo id) } := rfl

theorem setEnergy_cases (s : S α) (t : Int) (a : α) :
    setEnergy s t a = s ∨ ∃ u e, unitOf s t = some u ∧
      (setEnergy s t a = setUnit s { u with energy := e } ∨
       setEnergy s t a = emit (setUnit s { u with energy := e }) (.energy t u.energy e)) := by
  unfold setEnergy
  split
  · left; rfl
  · next u hu =>
    right
    refine ⟨u, (if a > u.maxEnergy then u.maxEnergy else if a < 0 then 0 else a), hu, ?_⟩
    simp only
    by_cases hb : Num.eqb (if a > u.maxEnergy then u.maxEnergy else if a < 0 then 0 else a) u.energy = true
    · left; rw [if_pos hb]
    · right; rw [if_neg hb]

theorem setEnergy_chars (s : S α) (t : Int) (a : α) :
    (setEnergy s t a).chars = s.chars ∧ (setEnergy s t a).enemies = s.enemies ∧
    (setEnergy s t a).turn = s.turn ∧ (setEnergy s t a).queue = s.queue := by
  rcases setEnergy_cases s t a with h | ⟨u, e, _, h | h⟩ <;> rw [h] <;> simp [setUnit, emit]

theorem setEnergy_evs (s : S α) (t : Int) (a : α) :
    (setEnergy s t a).evs = s.evs ∨ ∃ o n, (setEnergy s t a).evs = .energy t o n :: s.evs := by
  rcases setEnergy_cases s t a with h | ⟨u, e, _, h | h⟩ <;> rw [h]
  · left; rfl
  · left; rfl
  · right; exact ⟨_, _, rfl⟩

theorem killerOf_setUnit_energy (s : S α) (k : Int) (u : U α) (hu : unitOf s k = some u) (e : α) (t : Int) :
    killerOf (setUnit s { u with energy := e }) t = killerOf s t := by
  have hid := unitOf_id s k u hu
  unfold killerOf
  by_cases htk : t = k
  · subst htk
    rw [unitOf_setUnit_eq s u { u with energy := e } t hu hid, hu]
  · rw [unitOf_setUnit_ne s { u with energy := e } t (by simpa [hid] using htk)]

theorem killerOf_setEnergy (s : S α) (k : Int) (a : α) (t : Int) :
    killerOf (setEnergy s k a) t = killerOf s t := by
  rcases setEnergy_cases s k a with h | ⟨u, e, hu, h | h⟩ <;> rw [h]
  · exact killerOf_setUnit_energy s k u hu e t
  · exact killerOf_setUnit_energy s k u hu e t

theorem energyOnDeath_chars (s : S α) (k : Int) :
    (energyOnDeath s k).chars = s.chars ∧ (energyOnDeath s k).enemies = s.enemies ∧
    (energyOnDeath s k).turn = s.turn ∧ (energyOnDeath s k).queue = s.queue := by
  unfold energyOnDeath
  split
  · exact setEnergy_chars _ _ _
  · simp

theorem energyOnDeath_evs (s : S α) (k : Int) :
    (energyOnDeath s k).evs = s.evs ∨ ∃ o n, (energyOnDeath s k).evs = .energy k o n :: s.evs := by
  unfold energyOnDeath
  split
  · exact setEnergy_evs _ _ _
  · left; rfl

theorem killerOf_energyOnDeath (s : S α) (k : Int) (t : Int) :
    killerOf (energyOnDeath s k) t = killerOf s t := by
  unfold energyOnDeath
  split
  · exact killerOf_setEnergy _ _ _ _
  · rfl

theorem dstep_chars (s : S α) (t : Int) :
    (dstep s t).chars = s.chars ∧ (dstep s t).enemies = s.enemies := by
  unfold dstep
  have := energyOnDeath_chars { s with turn := (Turn.step s.turn (.remove t)).1 } (killerOf s t)
  exact ⟨this.1, this.2.1⟩

theorem remove_order (st : Turn.St α) (t : Int) :
    (Turn.step st (.remove t)).1.order = st.order.eraseP (·.1 == t) := by
  simp only [Turn.step]
  split
  · rfl
  · next h =>
    simp only
    rw [List.eraseP_of_forall_not]
    intro a ha hat
    apply h
    simp only [List.any_eq_true]
    exact ⟨a, ha, hat⟩

theorem dstep_order (s : S α) (t : Int) :
    (dstep s t).turn.order = s.turn.order.eraseP (·.1 == t) := by
  unfold dstep
  have := energyOnDeath_chars { s with turn := (Turn.step s.turn (.remove t)).1 } (killerOf s t)
  show (energyOnDeath _ _).turn.order = _
  rw [this.2.2.1]
  exact remove_order s.turn t

theorem dstep_killerOf (s : S α) (t x : Int) : killerOf (dstep s t) x = killerOf s x := by
  unfold dstep
  show killerOf (energyOnDeath _ _) x = _
  rw [killerOf_energyOnDeath]
  rfl

theorem dstep_evs (s : S α) (t : Int) :
    (dstep s t).evs = .death t (killerOf s t) :: s.evs ∨
    ∃ k o n, (dstep s t).evs = .death t (killerOf s t) :: .energy k o n :: s.evs := by
  unfold dstep
  rcases energyOnDeath_evs { s with turn := (Turn.step s.turn (.remove t)).1 } (killerOf s t) with h | ⟨o, n, h⟩
  · left; show _ :: (energyOnDeath _ _).evs = _; rw [h]
  · right; refine ⟨killerOf s t, o, n, ?_⟩; show _ :: (energyOnDeath _ _).evs = _; rw [h]

theorem dfold_chars (ts : List Int) (s : S α) :
    (ts.foldl dstep s).chars = s.chars ∧ (ts.foldl dstep s).enemies = s.enemies := by
  induction ts generalizing s with
  | nil => exact ⟨rfl, rfl⟩
  | cons a rest ih =>
    simp only [List.foldl_cons]
    have := ih (dstep s a)
    have h2 := dstep_chars s a
    exact ⟨this.1.trans h2.1, this.2.trans h2.2⟩

theorem dfold_order (ts : List Int) (s : S α) :
    (ts.foldl dstep s).turn.order = ts.foldl (fun o t => o.eraseP (·.1 == t)) s.turn.order := by
  induction ts generalizing s with
  | nil => rfl
  | cons a rest ih =>
    simp only [List.foldl_cons]
    rw [ih (dstep s a), dstep_order]

theorem dfold_killerOf (ts : List Int) (s : S α) (x : Int) :
    killerOf (ts.foldl dstep s) x = killerOf s x := by
  induction ts generalizing s with
  | nil => rfl
  | cons a rest ih =>
    simp only [List.foldl_cons]
    rw [ih (dstep s a), dstep_killerOf]

/-! ### erasing from the turn order -/

theorem erase_fold_sublist (ts : List Int) (o : List (Int × Int)) :
    List.Sublist (ts.foldl (fun o t => o.eraseP (·.1 == t)) o) o := by
  induction ts generalizing o with
  | nil => exact List.Sublist.refl _
  | cons a rest ih =>
    simp only [List.foldl_cons]
    exact (ih _).trans (List.eraseP_sublist)

theorem eraseP_nodup_not_mem (o : List (Int × Int)) (t : Int) (hn : (o.map (·.1)).Nodup) :
    ∀ p ∈ o.eraseP (·.1 == t), p.1 ≠ t := by
  induction o with
  | nil => simp
  | cons x xs ih =>
    simp only [List.map_cons, List.nodup_cons] at hn
    by_cases hx : x.1 = t
    · have : (x.1 == t) = true := by simp [hx]
      rw [List.eraseP_cons_of_pos (p := fun y : Int × Int => y.1 == t) this]
      intro p hp hpt
      apply hn.1
      rw [hx, ← hpt]
      exact List.mem_map_of_mem hp
    · have : ¬ ((x.1 == t) = true) := by simp [hx]
      rw [List.eraseP_cons_of_neg (p := fun y : Int × Int => y.1 == t) this]
      intro p hp
      rcases List.mem_cons.1 hp with rfl | hp
      · exact hx
      · exact ih hn.2 p hp

theorem erase_fold_not_mem (ts : List Int) (o : List (Int × Int)) (t : Int) (ht : t ∈ ts)
    (hn : (o.map (·.1)).Nodup) :
    ∀ p ∈ ts.foldl (fun o t => o.eraseP (·.1 == t)) o, p.1 ≠ t := by
  induction ts generalizing o with
  | nil => simp at ht
  | cons a rest ih =>
    simp only [List.foldl_cons]
    by_cases hat : a = t
    · subst hat
      intro p hp
      exact eraseP_nodup_not_mem o a hn p ((erase_fold_sublist rest _).subset hp)
    · have ht' : t ∈ rest := by
        rcases List.mem_cons.1 ht with h | h
        · exact absurd h.symm hat
        · exact h
      apply ih _ ht'
      exact List.Nodup.sublist (List.Sublist.map _ List.eraseP_sublist) hn

end Sim
