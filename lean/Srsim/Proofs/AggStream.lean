import Srsim.Proofs.AggSort
import Mathlib.Tactic.Ring
import Mathlib.Data.List.Induction
import Mathlib.Algebra.BigOperators.Group.List.Basic
/-! Helper lemmas about `Agg.Stream`, `Agg.meanInc`, `Agg.welford` at `ℚ`. -/
namespace Agg

@[simp] theorem ofN_rat (n : Nat) : (ofN n : Rat) = (n : Rat) := by
  simp [ofN]

theorem sumL_nil : sumL ([] : List Rat) = 0 := by
  simp [sumL]

theorem sumL_cons (x : Rat) (l : List Rat) : sumL (x :: l) = x + sumL l := rfl

theorem sumL_eq_sum (l : List Rat) : sumL l = l.sum := by
  induction l with
  | nil => simp [sumL_nil]
  | cons x l ih => rw [sumL_cons, ih, List.sum_cons]

theorem sumL_append (l₁ l₂ : List Rat) : sumL (l₁ ++ l₂) = sumL l₁ + sumL l₂ := by
  simp [sumL_eq_sum]

theorem sumL_snoc (l : List Rat) (x : Rat) : sumL (l ++ [x]) = sumL l + x := by
  simp [sumL_eq_sum]

theorem sumL_perm {l₁ l₂ : List Rat} (h : l₁.Perm l₂) : sumL l₁ = sumL l₂ := by
  rw [sumL_eq_sum, sumL_eq_sum]; exact h.sum_eq

theorem Stream.add_rat (s : Stream Rat) (x : Rat) : s.add x =
  { count := s.count + 1
    total := s.total + x
    min := if s.count = 0 then x else if x < s.min then x else s.min
    max := if s.count = 0 then x else if s.max < x then x else s.max
    mean := s.mean + (x - s.mean) / ((s.count : Rat) + 1)
    vM2 := s.vM2 + (x - s.mean) * (x - (s.mean + (x - s.mean) / ((s.count : Rat) + 1))) } := by
  simp [Stream.add]

theorem Stream.ofList_nil : Stream.ofList ([] : List Rat) = ⟨0, 0, 0, 0, 0, 0⟩ := by
  simp [Stream.ofList, Stream.empty]

theorem Stream.ofList_snoc (l : List Rat) (x : Rat) :
    Stream.ofList (l ++ [x]) = (Stream.ofList l).add x := by
  simp [Stream.ofList, List.foldl_append]

theorem stream_count (l : List Rat) : (Stream.ofList l).count = l.length := by
  induction l using List.reverseRecOn with
  | nil => simp [Stream.ofList_nil]
  | append_singleton l x ih => rw [Stream.ofList_snoc, Stream.add_rat]; simp [ih]

theorem stream_total (l : List Rat) : (Stream.ofList l).total = sumL l := by
  induction l using List.reverseRecOn with
  | nil => simp [Stream.ofList_nil, sumL_nil]
  | append_singleton l x ih => rw [Stream.ofList_snoc, Stream.add_rat, sumL_snoc]; simp [ih]

theorem stream_mean_mul (l : List Rat) :
    (Stream.ofList l).mean * (l.length : Rat) = sumL l := by
  induction l using List.reverseRecOn with
  | nil => simp [Stream.ofList_nil, sumL_nil]
  | append_singleton l x ih =>
    rw [Stream.ofList_snoc, Stream.add_rat, sumL_snoc, ← ih, stream_count]
    have hn : ((l.length : Rat) + 1) ≠ 0 := by positivity
    simp only [List.length_append, List.length_cons, List.length_nil, Nat.cast_add, Nat.cast_one,
      zero_add]
    field_simp
    ring

theorem stream_mean (l : List Rat) (h : l ≠ []) :
    (Stream.ofList l).mean = sumL l / (l.length : Rat) := by
  have hn : (l.length : Rat) ≠ 0 := by
    have : 0 < l.length := List.length_pos_iff.mpr h
    positivity
  rw [← stream_mean_mul l]
  field_simp

theorem stream_m2 (l : List Rat) :
    (Stream.ofList l).vM2 = sumL (l.map fun x => x * x)
      - (l.length : Rat) * ((Stream.ofList l).mean * (Stream.ofList l).mean) := by
  induction l using List.reverseRecOn with
  | nil => simp [Stream.ofList_nil, sumL_nil]
  | append_singleton l x ih =>
    rw [Stream.ofList_snoc, Stream.add_rat, List.map_append, sumL_append]
    simp only [List.map_cons, List.map_nil, sumL_cons, sumL_nil]
    rw [ih, stream_count]
    have hn : ((l.length : Rat) + 1) ≠ 0 := by positivity
    simp only [List.length_append, List.length_cons, List.length_nil, Nat.cast_add, Nat.cast_one,
      zero_add]
    field_simp
    ring

theorem stream_minmax (l : List Rat) :
    (∀ x ∈ l, (Stream.ofList l).min ≤ x ∧ x ≤ (Stream.ofList l).max) ∧
    (l ≠ [] → (Stream.ofList l).min ∈ l ∧ (Stream.ofList l).max ∈ l) := by
  induction l using List.reverseRecOn with
  | nil => simp
  | append_singleton l x ih =>
    rw [Stream.ofList_snoc, Stream.add_rat, stream_count]
    obtain ⟨ih1, ih2⟩ := ih
    by_cases hl : l = []
    · subst hl; simp
    · have hlen : l.length ≠ 0 := by
        intro h0; exact hl (List.eq_nil_of_length_eq_zero h0)
      obtain ⟨hmin, hmax⟩ := ih2 hl
      simp only [hlen, if_false]
      refine ⟨?_, fun _ => ⟨?_, ?_⟩⟩
      · intro y hy
        rcases List.mem_append.mp hy with hy | hy
        · obtain ⟨h1, h2⟩ := ih1 y hy
          constructor
          · split_ifs <;> linarith
          · split_ifs <;> linarith
        · have : y = x := by simpa using hy
          subst this
          constructor
          · split_ifs <;> linarith
          · split_ifs <;> linarith
      · split_ifs <;> simp [hmin]
      · split_ifs <;> simp [hmax]

theorem meanInc_fold (l : List Rat) :
    l.foldl (fun (acc : Rat × Nat) x => (acc.1 + (x - acc.1) / ofN (acc.2 + 1), acc.2 + 1)) (0, 0)
      = ((Stream.ofList l).mean, (Stream.ofList l).count) := by
  induction l using List.reverseRecOn with
  | nil => simp [Stream.ofList_nil]
  | append_singleton l x ih =>
    rw [List.foldl_append, ih, Stream.ofList_snoc, Stream.add_rat]
    simp

theorem meanInc_eq (l : List Rat) : meanInc l = (Stream.ofList l).mean := by
  unfold meanInc
  rw [meanInc_fold]

theorem welford_eq (l : List Rat) :
    welford l = ((Stream.ofList l).mean, (Stream.ofList l).vM2, (Stream.ofList l).count) := by
  unfold welford
  induction l using List.reverseRecOn with
  | nil => simp [Stream.ofList_nil]
  | append_singleton l x ih =>
    rw [List.foldl_append, ih, Stream.ofList_snoc, Stream.add_rat]
    simp

end Agg
