import Srsim.Spec.Proto
import Srsim.Proofs.NumRat
import Srsim.Proofs.SimLemmas
/-!
Proof of C09 over whole runs (`Props/C09Stream.lean`): the exit predicate `Proto.exitRun` accepts
the event stream of every terminated run of the driver model, and its accumulators are the
model's totals.

`xst cfg s` is the predicate state after the events emitted so far.  `Cpl s x` couples it with the
model state.  `Qt` relates two states between which content ran (the lists, the clock, the acting
unit and the terminated flag are untouched; the predicate accepts the new events when no exit
condition is pending after a queued task); `Tk` is the same for a whole queued task (which may set
the `afterTask` flag).  The control functions are handled by induction on fuel with the
post-condition `Post` ("failed, or coupled and either terminated or going on").
-/
set_option linter.unusedSectionVars false
namespace Sim
open Proto

/-! ### the predicate over the emitted events -/

def xstep (cfg : Cfg) (x : XSt Rat) (e : Ev Rat) : Except String (XSt Rat) :=
  exitStep cfg.nchars (cfg.nchars + cfg.nenemies) cfg.cycles x e

def xrun (cfg : Cfg) (x : XSt Rat) (l : List (Ev Rat)) : Except String (XSt Rat) :=
  exitRun cfg.nchars (cfg.nchars + cfg.nenemies) cfg.cycles x l

theorem xrun_append (cfg : Cfg) (x : XSt Rat) (l : List (Ev Rat)) (e : Ev Rat) :
    xrun cfg x (l ++ [e]) = (xrun cfg x l).bind (fun x' => xstep cfg x' e) := by
  induction l generalizing x with
  | nil =>
    simp only [xrun, List.nil_append, exitRun, Except.bind, xstep]
    cases exitStep cfg.nchars (cfg.nchars + cfg.nenemies) cfg.cycles x e <;> rfl
  | cons y ys ih =>
    simp only [xrun, List.cons_append, exitRun]
    cases h : exitStep cfg.nchars (cfg.nchars + cfg.nenemies) cfg.cycles x y with
    | error m => rfl
    | ok x' => exact ih x'

def xst (cfg : Cfg) (x0 : XSt Rat) (s : S Rat) : Except String (XSt Rat) := xrun cfg x0 s.evs.reverse

variable {cfg : Cfg} {x0 : XSt Rat}

theorem xst_congr {s s' : S Rat} (h : s'.evs = s.evs) : xst cfg x0 s' = xst cfg x0 s := by
  simp only [xst, h]

theorem xst_cons {s s' : S Rat} {e : Ev Rat} {x x' : XSt Rat} (h : s'.evs = e :: s.evs)
    (hx : xst cfg x0 s = .ok x) (hs : xstep cfg x e = .ok x') : xst cfg x0 s' = .ok x' := by
  simp only [xst, h, List.reverse_cons] at hx ⊢
  rw [xrun_append, hx]
  exact hs

/-- events that only clear the `afterTask` flag -/
def neutral : Ev Rat → Bool
  | .initialize => true
  | .targetsAdded _ _ => true
  | .battleStart => true
  | .phase1Start => true
  | .phase2Start => true
  | .phase2End => true
  | .turnEnd => true
  | .turnReset _ _ _ => true
  | .gauge _ _ _ _ => true
  | .actionStart _ _ _ => true
  | .actionEnd _ _ ins => !ins
  | .insertStart _ _ _ => true
  | .attackStart _ _ => true
  | .attackEnd _ _ => true
  | .hitStart _ _ => true
  | .healStart _ _ => true
  | .healEnd _ _ => true
  | .hpChange _ _ _ _ => true
  | .limbo _ _ => true
  | .sp _ _ => true
  | .pick _ => true
  | .mark _ _ => true
  | _ => false

theorem xstep_neutral (cfg : Cfg) (x : XSt Rat) (e : Ev Rat) (he : neutral e = true)
    (hg : (x.afterTask && (exitOf cfg.cycles x).isSome) = false) :
    xstep cfg x e = .ok { x with afterTask := false } := by
  cases e <;> simp [neutral] at he <;> simp [xstep, exitStep, hg]
  subst he; rfl

/-- the end of a queued task -/
def taskEnd : Ev Rat → Bool
  | .insertEnd _ _ _ => true
  | .actionEnd _ _ ins => ins
  | _ => false

theorem xstep_taskEnd (cfg : Cfg) (x : XSt Rat) (e : Ev Rat) (he : taskEnd e = true)
    (hg : (x.afterTask && (exitOf cfg.cycles x).isSome) = false) :
    xstep cfg x e = .ok { x with afterTask := true } := by
  cases e <;> simp [taskEnd] at he <;> simp [xstep, exitStep, hg]
  subst he; rfl

theorem xstep_energy (cfg : Cfg) (x : XSt Rat) (t : Int) (o n : Rat) :
    xstep cfg x (.energy t o n) = .ok x := rfl

theorem xstep_death (cfg : Cfg) (x : XSt Rat) (t k : Int) :
    xstep cfg x (.death t k) =
      .ok { x with chars := x.chars.filter (· != t), enemies := x.enemies.filter (· != t) } := rfl

theorem isCharId_valid' (cfg : Cfg) (d : Int) (h : isCharId cfg d = true) : isValidId cfg d = true := by
  unfold isCharId at h
  unfold isValidId
  simp only [Bool.and_eq_true, decide_eq_true_eq] at h ⊢
  omega

theorem xstep_hitEnd (cfg : Cfg) (x : XSt Rat) (a d : Int) (tot r : Rat)
    (hg : (x.afterTask && (exitOf cfg.cycles x).isSome) = false) :
    xstep cfg x (.hitEnd a d tot r) =
      .ok (if isCharId cfg d then { x with afterTask := false, taken := x.taken + tot }
           else if isValidId cfg d then { x with afterTask := false, dealt := x.dealt + tot }
           else { x with afterTask := false }) := by
  have e1 : isCharId cfg d = (decide (1 ≤ d) && decide (d ≤ (cfg.nchars : Int))) := rfl
  have e2 : isValidId cfg d = (decide (1 ≤ d) && decide (d ≤ ((cfg.nchars + cfg.nenemies : Nat) : Int))) := by
    unfold isValidId; rw [Int.natCast_add]
  simp only [xstep, exitStep, hg, Bool.false_eq_true, ite_false, ← e1, ← e2]
  cases isCharId cfg d <;> cases isValidId cfg d <;> rfl

/-! ### coupling -/

structure Cpl (s : S Rat) (x : XSt Rat) : Prop where
  chars : x.chars = s.chars
  enemies : x.enemies = s.enemies
  clock : x.clock = s.turn.totalAV
  dealt : x.dealt = s.dealt
  taken : x.taken = s.taken
  active : x.active = s.active
  term : x.terminated = s.terminated

theorem exitOf_eq {s : S Rat} {x : XSt Rat} (h : Cpl s x) : exitOf cfg.cycles x = exitReason cfg s := by
  unfold exitOf exitReason
  rw [h.chars, h.enemies, h.clock]

/-- what content leaves alone -/
structure Fr (s s' : S Rat) : Prop where
  chars : s'.chars = s.chars
  enemies : s'.enemies = s.enemies
  clock : s'.turn.totalAV = s.turn.totalAV
  active : s'.active = s.active
  term : s'.terminated = s.terminated

theorem Fr.refl (s : S Rat) : Fr s s := ⟨rfl, rfl, rfl, rfl, rfl⟩

theorem Fr.trans {a b c : S Rat} (h : Fr a b) (h' : Fr b c) : Fr a c :=
  ⟨h'.chars.trans h.chars, h'.enemies.trans h.enemies, h'.clock.trans h.clock, h'.active.trans h.active,
   h'.term.trans h.term⟩

theorem Fr.exitReason {s s' : S Rat} (h : Fr s s') : exitReason cfg s' = exitReason cfg s := by
  unfold Sim.exitReason
  rw [h.chars, h.enemies, h.clock]

/-- no exit condition is pending after a queued task -/
def Guard (cfg : Cfg) (s : S Rat) (x : XSt Rat) : Prop := x.afterTask = true → exitReason cfg s = none

theorem Guard.step {s : S Rat} {x : XSt Rat} (hc : Cpl s x) (hg : Guard cfg s x) :
    (x.afterTask && (exitOf cfg.cycles x).isSome) = false := by
  cases ha : x.afterTask
  · rfl
  · rw [exitOf_eq (cfg := cfg) hc, hg ha]; rfl

structure Qt (cfg : Cfg) (x0 : XSt Rat) (s s' : S Rat) : Prop where
  fr : Fr s s'
  mon : ∀ x, xst cfg x0 s = .ok x → Cpl s x → Guard cfg s x →
    ∃ x', xst cfg x0 s' = .ok x' ∧ Cpl s' x' ∧ (x'.afterTask = true → x.afterTask = true)

theorem Qt.refl (s : S Rat) : Qt cfg x0 s s := ⟨Fr.refl s, fun x hx hc _ => ⟨x, hx, hc, id⟩⟩

theorem Qt.trans {a b c : S Rat} (h : Qt cfg x0 a b) (h' : Qt cfg x0 b c) : Qt cfg x0 a c := by
  refine ⟨h.fr.trans h'.fr, ?_⟩
  intro x hx hc hg
  obtain ⟨x1, hx1, hc1, ha1⟩ := h.mon x hx hc hg
  have hg1 : Guard cfg b x1 := fun hb => by rw [h.fr.exitReason]; exact hg (ha1 hb)
  obtain ⟨x2, hx2, hc2, ha2⟩ := h'.mon x1 hx1 hc1 hg1
  exact ⟨x2, hx2, hc2, fun h2 => ha1 (ha2 h2)⟩

/-- an update of fields the predicate and the exit test do not see -/
theorem Qt.same {s s' : S Rat} (he : s'.evs = s.evs) (h1 : s'.chars = s.chars) (h2 : s'.enemies = s.enemies)
    (h3 : s'.turn.totalAV = s.turn.totalAV) (h4 : s'.active = s.active) (h5 : s'.terminated = s.terminated)
    (h6 : s'.dealt = s.dealt) (h7 : s'.taken = s.taken) : Qt cfg x0 s s' := by
  refine ⟨⟨h1, h2, h3, h4, h5⟩, ?_⟩
  intro x hx hc _
  refine ⟨x, (xst_congr he).trans hx, ⟨?_, ?_, ?_, ?_, ?_, ?_, ?_⟩, id⟩
  · rw [h1]; exact hc.chars
  · rw [h2]; exact hc.enemies
  · rw [h3]; exact hc.clock
  · rw [h6]; exact hc.dealt
  · rw [h7]; exact hc.taken
  · rw [h4]; exact hc.active
  · rw [h5]; exact hc.term

theorem Qt.emit0 (s : S Rat) (e : Ev Rat) (he : neutral e = true) : Qt cfg x0 s (emit s e) := by
  refine ⟨⟨rfl, rfl, rfl, rfl, rfl⟩, ?_⟩
  intro x hx hc hg
  refine ⟨{ x with afterTask := false }, xst_cons rfl hx (xstep_neutral cfg x e he (hg.step hc)), ?_, ?_⟩
  · exact ⟨hc.chars, hc.enemies, hc.clock, hc.dealt, hc.taken, hc.active, hc.term⟩
  · intro h; cases h

theorem Qt.emit {s s' : S Rat} (h : Qt cfg x0 s s') (e : Ev Rat) (he : neutral e = true) :
    Qt cfg x0 s (Sim.emit s' e) := h.trans (Qt.emit0 s' e he)

theorem Qt.energy0 (s : S Rat) (t : Int) (o n : Rat) : Qt cfg x0 s (Sim.emit s (.energy t o n)) := by
  refine ⟨⟨rfl, rfl, rfl, rfl, rfl⟩, ?_⟩
  intro x hx hc _
  exact ⟨x, xst_cons rfl hx (xstep_energy cfg x t o n),
    ⟨hc.chars, hc.enemies, hc.clock, hc.dealt, hc.taken, hc.active, hc.term⟩, id⟩

theorem Qt.foldl {β : Type} (f : S Rat → β → S Rat) (hf : ∀ s b, Qt cfg x0 s (f s b)) (l : List β) (s : S Rat) :
    Qt cfg x0 s (l.foldl f s) := by
  induction l generalizing s with
  | nil => exact Qt.refl s
  | cons b bs ih => exact (hf s b).trans (ih (f s b))

theorem Qt.ite {c : Prop} [Decidable c] {s a b : S Rat} (ha : Qt cfg x0 s a) (hb : Qt cfg x0 s b) :
    Qt cfg x0 s (if c then a else b) := by
  split
  · exact ha
  · exact hb

/-- the statistics subscriber and the `hitEnd` that triggers it -/
theorem Qt.hitEnd (s : S Rat) (a d : Int) (tot r : Rat) :
    Qt cfg x0 s (Sim.emit (collect cfg s d tot) (.hitEnd a d tot r)) := by
  have hcol : (collect cfg s d tot).evs = s.evs ∧ (collect cfg s d tot).chars = s.chars ∧
      (collect cfg s d tot).enemies = s.enemies ∧ (collect cfg s d tot).turn = s.turn ∧
      (collect cfg s d tot).active = s.active ∧ (collect cfg s d tot).terminated = s.terminated := by
    unfold collect; dsimp only; split <;> exact ⟨rfl, rfl, rfl, rfl, rfl, rfl⟩
  obtain ⟨c1, c2, c3, c4, c5, c6⟩ := hcol
  refine ⟨⟨c2, c3, by show (collect cfg s d tot).turn.totalAV = _; rw [c4], c5, c6⟩, ?_⟩
  intro x hx hc hg
  have hx1 : xst cfg x0 (collect cfg s d tot) = .ok x := (xst_congr c1).trans hx
  refine ⟨_, xst_cons rfl hx1 (xstep_hitEnd cfg x a d tot r (hg.step hc)), ?_, ?_⟩
  · by_cases h1 : isCharId cfg d = true
    · have h2 := isCharId_valid' cfg d h1
      rw [if_pos h1]
      refine ⟨hc.chars.trans c2.symm, hc.enemies.trans c3.symm, ?_, ?_, ?_, hc.active.trans c5.symm,
        hc.term.trans c6.symm⟩
      · show x.clock = (collect cfg s d tot).turn.totalAV; rw [c4]; exact hc.clock
      · show x.dealt = (collect cfg s d tot).dealt
        unfold collect; simp only [h1, h2, Bool.not_true, Bool.and_false, Bool.false_eq_true, ite_false, ite_true]
        exact hc.dealt
      · show x.taken + tot = (collect cfg s d tot).taken
        unfold collect; simp only [h1, h2, ite_true]
        rw [hc.taken]
    · rw [if_neg h1]
      have h1' : isCharId cfg d = false := by simpa using h1
      by_cases h2 : isValidId cfg d = true
      · rw [if_pos h2]
        refine ⟨hc.chars.trans c2.symm, hc.enemies.trans c3.symm, ?_, ?_, ?_, hc.active.trans c5.symm,
          hc.term.trans c6.symm⟩
        · show x.clock = (collect cfg s d tot).turn.totalAV; rw [c4]; exact hc.clock
        · show x.dealt + tot = (collect cfg s d tot).dealt
          unfold collect; simp only [h1', h2, Bool.not_false, Bool.and_true, ite_true]
          rw [hc.dealt]
        · show x.taken = (collect cfg s d tot).taken
          unfold collect; simp only [h1', h2, Bool.false_eq_true, ite_false, ite_true]
          exact hc.taken
      · rw [if_neg h2]
        have h2' : isValidId cfg d = false := by simpa using h2
        have : collect cfg s d tot = s := by
          unfold collect; simp only [h2', Bool.false_eq_true, ite_false]
        rw [this]
        exact ⟨hc.chars, hc.enemies, hc.clock, hc.dealt, hc.taken, hc.active, hc.term⟩
  · intro h
    split at h
    · cases h
    · split at h <;> cases h

/-! ### the clock of the turn manager -/

theorem setGaugeI_clock (st : Turn.St Rat) (id g : Int) : (Turn.setGaugeI st id g).1.totalAV = st.totalAV := by
  unfold Turn.setGaugeI
  split
  · rfl
  · split <;> rfl

theorem remove_clock (st : Turn.St Rat) (id : Int) : (Turn.step st (.remove id)).1.totalAV = st.totalAV := by
  simp only [Turn.step]
  split <;> rfl

theorem reset_clock (st : Turn.St Rat) : (Turn.step st .reset).1.totalAV = st.totalAV := by
  simp only [Turn.step]
  split <;> rfl

theorem start_clock (st : Turn.St Rat) {id : Int} {av : Rat} {l : List (Int × Int × Rat)} {total : Rat}
    (h : (Turn.step st .start).2 = [.started id av l total]) : (Turn.step st .start).1.totalAV = total := by
  simp only [Turn.step] at h ⊢
  split at h
  · cases h
  · split at h
    · cases h
    · rename_i hd tl hs
      simp only [List.cons.injEq, Turn.Ev.started.injEq, and_true] at h
      rw [if_neg (by assumption)]
      exact h.2.2.2

/-! ### content -/

macro "qsame" : tactic => `(tactic| exact Qt.same rfl rfl rfl rfl rfl rfl rfl rfl)

theorem Qt.enqueue {s s' : S Rat} (h : Qt cfg x0 s s') (a b : Int) (c : Bool) (k : TaskKind) :
    Qt cfg x0 s (enqueue s' a b c k) := h.trans (by qsame)

theorem Qt.hpSet (s : S Rat) (t : Int) (r : Rat) (src : Int) (d : Bool) : Qt cfg x0 s (hpSet s t r src d) := by
  unfold Sim.hpSet
  split
  · exact Qt.refl s
  · split
    · exact Qt.refl s
    · split
      · exact Qt.refl s
      · split
        · exact Qt.emit (by qsame) _ (by rfl)
        · split
          · exact Qt.emit (Qt.enqueue (Qt.emit (by qsame) _ (by rfl)) _ _ _ _) _ (by rfl)
          · exact Qt.emit (Qt.emit (by qsame) _ (by rfl)) _ (by rfl)

theorem Qt.hit (s : S Rat) (src tgt : Int) : Qt cfg x0 s (hit cfg s src tgt) := by
  unfold Sim.hit
  dsimp only
  exact Qt.trans (Qt.trans (Qt.emit (by qsame) _ (by rfl)) (Qt.hpSet _ _ _ _ _)) (Qt.hitEnd _ _ _ _ _)

theorem Qt.counters (s : S Rat) (src : Int) (ts : List Int) : Qt cfg x0 s (counters cfg s src ts) := by
  unfold Sim.counters
  refine Qt.foldl _ (fun s t => ?_) _ _
  split
  · exact Qt.hit s t src
  · exact Qt.refl s

theorem Qt.attack (s : S Rat) (src : Int) (ts : List Int) (ty : Nat) : Qt cfg x0 s (attack cfg s src ts ty) := by
  unfold Sim.attack
  split
  · exact Qt.refl s
  · refine Qt.trans ?_ (Qt.foldl _ (fun s t => Qt.hit s src t) _ _)
    split
    · exact Qt.trans (Qt.counters s src ts) (Qt.emit (by qsame) _ (by rfl))
    · exact Qt.refl s

theorem Qt.endAttack (s : S Rat) : Qt cfg x0 s (endAttack s) := by
  unfold Sim.endAttack
  split
  · exact Qt.emit (by qsame) _ (by rfl)
  · exact Qt.refl s

theorem Qt.hpPrim (s : S Rat) (t src : Int) : Qt cfg x0 s (hpPrim s t src) := by
  unfold Sim.hpPrim
  exact Qt.emit (Qt.trans (by qsame) (Qt.hpSet _ _ _ _ _)) _ (by rfl)

theorem Qt.heal (s : S Rat) (src t : Int) : Qt cfg x0 s (heal s src t) := by
  unfold Sim.heal
  simp only
  split
  · exact Qt.emit (Qt.emit (Qt.trans (Qt.emit (by qsame) _ (by rfl)) (Qt.hpSet _ _ _ _ _)) _ (by rfl)) _ (by rfl)
  · exact Qt.emit (by qsame) _ (by rfl)

theorem Qt.modifySP (s : S Rat) (amt : Int) : Qt cfg x0 s (modifySP s amt) := by
  unfold Sim.modifySP
  split
  · exact Qt.refl s
  · exact Qt.emit (by qsame) _ (by rfl)

theorem Qt.setEnergy (s : S Rat) (t : Int) (a : Rat) : Qt cfg x0 s (setEnergy s t a) := by
  rcases setEnergy_cases s t a with h | ⟨u, e, _, h | h⟩ <;> rw [h]
  · exact Qt.refl s
  · qsame
  · exact Qt.trans (by qsame) (Qt.energy0 _ _ _ _)

theorem Qt.setGauge (s : S Rat) (t : Int) (a : Rat) : Qt cfg x0 s (setGauge s t a) := by
  unfold Sim.setGauge
  dsimp only
  refine Qt.trans (b := { s with turn := (Turn.step s.turn (.setGauge t a)).1 })
    (Qt.same rfl rfl rfl ?_ rfl rfl rfl rfl) (Qt.foldl _ ?_ _ _)
  · simp only [Turn.step]; exact setGaugeI_clock _ _ _
  · intro s e
    split
    · exact Qt.emit0 _ _ (by rfl)
    · exact Qt.refl s

theorem Qt.insertAction (s : S Rat) (t : Int) : Qt cfg x0 s (insertAction cfg s t) := by qsame

theorem Qt.runCmd (s : S Rat) (c : Cmd) (src pt : Int) : Qt cfg x0 s (runCmd cfg s c src pt) := by
  unfold Sim.runCmd
  split
  · exact Qt.foldl _ (fun s _ => Qt.attack s _ _ _) _ _
  split
  · exact Qt.endAttack s
  split
  · exact Qt.foldl _ (fun s t => Qt.heal s src t) _ _
  split
  · exact Qt.foldl _ (fun s t => Qt.hpPrim s t src) _ _
  split
  · qsame
  split
  · exact Qt.foldl _ (fun s t => Qt.insertAction s t) _ _
  split
  · exact Qt.foldl _ (fun s t => Qt.setGauge s t _) _ _
  split
  · refine Qt.foldl _ ?_ _ _
    intro s t
    split
    · exact Qt.setEnergy _ _ _
    · exact Qt.refl s
  split
  · exact Qt.foldl _ (fun s t => by qsame) _ _
  split
  · exact Qt.foldl _ (fun s t => by qsame) _ _
  split
  · exact Qt.modifySP s _
  · exact Qt.refl s

theorem Qt.runProg (s : S Rat) (p : Nat) (src pt : Int) : Qt cfg x0 s (runProg cfg s p src pt) := by
  unfold Sim.runProg
  exact Qt.foldl _ (fun s c => Qt.runCmd s c src pt) _ _

theorem Qt.ultCheck (s : S Rat) : Qt cfg x0 s (ultCheck cfg s) := by
  unfold Sim.ultCheck
  refine Qt.trans (b := { s with ultCalls := s.ultCalls + 1 }) (by qsame) (Qt.foldl _ ?_ _ _)
  intro s a
  split
  · exact Qt.refl s
  split
  · qsame
  split
  · exact Qt.refl s
  split
  · exact Qt.trans (Qt.enqueue (Qt.refl s) _ _ _ _) (Qt.setEnergy _ _ _)
  · exact Qt.refl s

theorem Qt.tickPhase1 (s : S Rat) : Qt cfg x0 s (tickPhase1 cfg s) := by
  unfold Sim.tickPhase1
  split
  · split
    · exact Qt.attack _ _ _ _
    · exact Qt.refl s
  · exact Qt.refl s

theorem Qt.tickPhase2 (s : S Rat) : Qt cfg x0 s (tickPhase2 s) := by
  unfold Sim.tickPhase2
  split
  · split
    · exact Qt.hpPrim _ _ _
    · exact Qt.refl s
  · exact Qt.refl s

/-- consequence of `Qt` for a state that is going on -/
theorem Qt.live {s s' : S Rat} (h : Qt cfg x0 s s') {x : XSt Rat} (hx : xst cfg x0 s = .ok x) (hc : Cpl s x)
    (hg : Guard cfg s x) :
    ∃ x', xst cfg x0 s' = .ok x' ∧ Cpl s' x' ∧ Guard cfg s' x' ∧ (x'.afterTask = true → x.afterTask = true) := by
  obtain ⟨x1, hx1, hc1, ha1⟩ := h.mon x hx hc hg
  exact ⟨x1, hx1, hc1, fun hb => by rw [h.fr.exitReason]; exact hg (ha1 hb), ha1⟩

/-- the same when the flag is down: it stays down -/
theorem Qt.clean {s s' : S Rat} (h : Qt cfg x0 s s') {x : XSt Rat} (hx : xst cfg x0 s = .ok x) (hc : Cpl s x)
    (ha : x.afterTask = false) :
    ∃ x', xst cfg x0 s' = .ok x' ∧ Cpl s' x' ∧ x'.afterTask = false := by
  obtain ⟨x1, hx1, hc1, ha1⟩ := h.mon x hx hc (fun hb => by rw [ha] at hb; cases hb)
  refine ⟨x1, hx1, hc1, ?_⟩
  cases hb : x1.afterTask
  · rfl
  · have := ha1 hb; rw [ha] at this; cases this

/-! ### queued tasks -/

structure Tk (cfg : Cfg) (x0 : XSt Rat) (s s' : S Rat) : Prop where
  fr : Fr s s'
  mon : ∀ x, xst cfg x0 s = .ok x → Cpl s x → Guard cfg s x → ∃ x', xst cfg x0 s' = .ok x' ∧ Cpl s' x'

theorem Qt.tk {s s' : S Rat} (h : Qt cfg x0 s s') : Tk cfg x0 s s' :=
  ⟨h.fr, fun x hx hc hg => by obtain ⟨x1, hx1, hc1, _⟩ := h.mon x hx hc hg; exact ⟨x1, hx1, hc1⟩⟩

theorem Qt.taskEnd {s s' : S Rat} (h : Qt cfg x0 s s') (e : Ev Rat) (he : taskEnd e = true) :
    Tk cfg x0 s (Sim.emit s' e) := by
  refine ⟨h.fr.trans ⟨rfl, rfl, rfl, rfl, rfl⟩, ?_⟩
  intro x hx hc hg
  obtain ⟨x1, hx1, hc1, hg1, _⟩ := h.live hx hc hg
  refine ⟨{ x1 with afterTask := true }, xst_cons rfl hx1 (xstep_taskEnd cfg x1 e he (hg1.step hc1)), ?_⟩
  exact ⟨hc1.chars, hc1.enemies, hc1.clock, hc1.dealt, hc1.taken, hc1.active, hc1.term⟩

/-- an action is nothing, or a bracket closed by its `actionEnd` -/
theorem executeAction_shape (s s' : S Rat) (id : Int) (ins : Bool) (h : executeAction cfg s id ins = some s') :
    Qt cfg x0 s s' ∨ ∃ s1 o ty, Qt cfg x0 s s1 ∧ s' = Sim.emit s1 (.actionEnd o ty ins) := by
  unfold Sim.executeAction at h
  split at h
  · cases h; exact Or.inl (Qt.refl s)
  · split at h
    · simp only at h
      split at h
      · cases h
      · cases h
        right
        refine ⟨_, _, _, ?_, rfl⟩
        refine Qt.trans (Qt.trans (Qt.emit (Qt.trans
          (b := { s with calls := fun i => if i == id then s.calls id + 1 else s.calls i }) (by qsame)
          (Qt.modifySP _ _)) _ (by rfl)) (Qt.runProg _ _ _ _)) (Qt.endAttack _)
    · cases h
      right
      refine ⟨_, _, _, ?_, rfl⟩
      refine Qt.trans (Qt.trans (Qt.emit (Qt.emit (s' := { s with pickN := s.pickN + 1 }) (by qsame) _ (by rfl)) _ (by rfl))
        (Qt.runProg _ _ _ _)) (Qt.endAttack _)

theorem executeAction_tk (s s' : S Rat) (id : Int) (ins : Bool) (h : executeAction cfg s id ins = some s') :
    Tk cfg x0 s s' := by
  rcases executeAction_shape (x0 := x0) s s' id ins h with h1 | ⟨s1, o, ty, h1, rfl⟩
  · exact h1.tk
  · cases ins
    · exact (h1.emit _ (by rfl)).tk
    · exact h1.taskEnd _ (by rfl)

theorem executeAction_own (s s' : S Rat) (id : Int) (h : executeAction cfg s id false = some s') :
    Qt cfg x0 s s' := by
  rcases executeAction_shape (x0 := x0) s s' id false h with h1 | ⟨s1, o, ty, h1, rfl⟩
  · exact h1
  · exact h1.emit _ (by rfl)

theorem executeUlt_tk (s : S Rat) (a : UltAsk) : Tk cfg x0 s (executeUlt cfg s a) := by
  unfold Sim.executeUlt
  split
  · exact (Qt.refl s).tk
  · split
    · exact (Qt.refl s).tk
    · exact Qt.taskEnd (Qt.trans (Qt.trans (Qt.emit0 s _ (by rfl)) (Qt.runProg _ _ _ _)) (Qt.endAttack _)) _ (by rfl)

theorem execTask_tk (s : S Rat) (t : Task) : Tk cfg x0 s (execTask cfg s t) := by
  unfold Sim.execTask
  split
  · split
    · next s' h => exact executeAction_tk s s' _ _ h
    · split
      · exact Qt.tk (by qsame)
      · exact (Qt.refl s).tk
  · exact Qt.taskEnd (Qt.trans (Qt.trans (Qt.emit0 s _ (by rfl)) (Qt.runProg _ _ _ _)) (Qt.endAttack _)) _ (by rfl)
  · exact executeUlt_tk s _
  · next o _ =>
    refine Qt.taskEnd (Qt.trans (Qt.trans (Qt.trans (Qt.emit0 s _ (by rfl)) (Qt.hpPrim _ _ _))
      (b := hpPrim (Sim.emit s (.insertStart o reviveKey t.prio)) o o) (by qsame)) (Qt.endAttack _)) _ (by rfl)

end Sim
