import Srsim.Model.Gcs.Eval
import Srsim.Proofs.NumRat
/-!
Helper lemmas for `Srsim/Props/C12.lean`: `setVar` only touches one frame, lookups that start
below a frame never read it, and the variable list written by `setVar` finds the new binding.
-/
namespace Gcs.Eval
open Gcs.Parse Gcs.Lex

theorem b2v_cases (b : Bool) : (b2v b : Val Rat) = .int 0 ∨ (b2v b : Val Rat) = .int 1 := by
  cases b <;> simp [b2v]

theorem setVar_frames_size (s : St Rat) (scope : Nat) (x : List Nat) (v : Val Rat) :
    (setVar s scope x v).frames.size = s.frames.size := by
  unfold setVar
  split <;> simp

theorem setVar_frames_ne (s : St Rat) (scope : Nat) (x : List Nat) (v : Val Rat) (i : Nat) (h : i ≠ scope) :
    (setVar s scope x v).frames[i]? = s.frames[i]? := by
  unfold setVar
  split
  · rfl
  · simp [Array.getElem?_setIfInBounds_ne (Ne.symm h)]

theorem lookupIn_congr (A B : Array (Frame Rat)) (scope : Nat)
    (hA : ∀ (i : Nat) (fr : Frame Rat), A[i]? = some fr → ∀ p, fr.parent = some p → p < i)
    (hAB : ∀ i, i < scope → B[i]? = A[i]?) (y : List Nat) :
    ∀ (fuel e : Nat), e < scope → lookupIn B fuel e y = lookupIn A fuel e y := by
  intro fuel
  induction fuel with
  | zero => intro e _; rfl
  | succ n ih =>
    intro e he
    simp only [lookupIn, hAB e he]
    cases hfr : A[e]? with
    | none => rfl
    | some fr =>
      simp only
      cases fr.vars.find? (·.1 == y) with
      | some kv => rfl
      | none =>
        simp only
        cases hp : fr.parent with
        | none => rfl
        | some p =>
          simp only
          exact ih p (Nat.lt_trans (hA e fr hfr p hp) he)

theorem find_map_setVars (x : List Nat) (v : Val Rat) : ∀ (vars : List (List Nat × Val Rat)),
    vars.any (·.1 == x) = true →
    (vars.map fun kv => if kv.1 == x then (x, v) else kv).find? (·.1 == x) = some (x, v)
  | [], h => by simp at h
  | kv :: rest, h => by
    by_cases hk : (kv.1 == x) = true
    · simp only [List.map_cons, hk, if_true, List.find?_cons, beq_self_eq_true]
    · have hk' : (kv.1 == x) = false := by simpa using hk
      rw [List.any_cons, hk', Bool.false_or] at h
      simp only [List.map_cons, hk', Bool.false_eq_true, if_false, List.find?_cons]
      exact find_map_setVars x v rest h

theorem find_append_setVars (x : List Nat) (v : Val Rat) : ∀ (vars : List (List Nat × Val Rat)),
    vars.any (·.1 == x) = false →
    (vars ++ [(x, v)]).find? (·.1 == x) = some (x, v)
  | [], _ => by simp
  | kv :: rest, h => by
    rw [List.any_cons, Bool.or_eq_false_iff] at h
    simp only [List.cons_append, List.find?_cons, h.1]
    exact find_append_setVars x v rest h.2

theorem find_setVars (vars : List (List Nat × Val Rat)) (x : List Nat) (v : Val Rat) :
    (if vars.any (·.1 == x) then vars.map fun kv => if kv.1 == x then (x, v) else kv
      else vars ++ [(x, v)]).find? (·.1 == x) = some (x, v) := by
  by_cases h : vars.any (·.1 == x) = true
  · rw [if_pos h]; exact find_map_setVars x v vars h
  · rw [if_neg h]; exact find_append_setVars x v vars (Bool.eq_false_iff.mpr h)

end Gcs.Eval
