import Srsim.Proofs.AggStream
/-! Helper lemmas about `Agg.Buf`, `Agg.addSeries`, `Agg.increments` at `ℚ`. -/
namespace Agg

theorem addSeries_getD (t : List (List Rat)) (ds : List Rat) (i : Nat) :
    (addSeries t ds).getD i [] = t.getD i [] ++ (ds[i]?).toList := by
  induction ds generalizing t i with
  | nil => cases t <;> simp [addSeries]
  | cons d ds ih =>
    cases t with
    | nil =>
      cases i with
      | zero => simp [addSeries]
      | succ i =>
        have := ih [] i
        simp only [addSeries, List.getD_cons_succ, List.getElem?_cons_succ]
        simpa using this
    | cons c t =>
      cases i with
      | zero => simp [addSeries]
      | succ i =>
        have := ih t i
        simp only [addSeries, List.getD_cons_succ, List.getElem?_cons_succ]
        exact this

theorem Buf.add_cumDealt (b : Buf Rat) (r : IterRes Rat) :
    (b.add r).cumDealt = addSeries b.cumDealt (increments (0 : Rat) r.cumDealt) := by
  simp [Buf.add]

theorem Buf.add_cumTaken (b : Buf Rat) (r : IterRes Rat) :
    (b.add r).cumTaken = addSeries b.cumTaken (increments (0 : Rat) r.cumTaken) := by
  simp [Buf.add]

theorem Buf.add_completed (b : Buf Rat) (r : IterRes Rat) :
    (b.add r).completed = b.completed + 1 := rfl

theorem hundred_rat : (@OfNat.ofNat Rat 100 (Num.instOfNat 100)) = (100 : Rat) := by
  rw [Num.ofNat_rat]

theorem Buf.add_dpc (b : Buf Rat) (r : IterRes Rat) :
    (b.add r).dpc = b.dpc ++ [r.dealt * 100 / r.av] := by
  simp [Buf.add, hundred_rat]

theorem foldl_cumDealt (rs : List (IterRes Rat)) (b : Buf Rat) (i : Nat) :
    (rs.foldl Buf.add b).cumDealt.getD i []
      = b.cumDealt.getD i [] ++ rs.filterMap (fun r => (increments (0 : Rat) r.cumDealt)[i]?) := by
  induction rs generalizing b with
  | nil => simp
  | cons r rs ih =>
    rw [List.foldl_cons, ih, Buf.add_cumDealt, addSeries_getD, List.filterMap_cons]
    cases (increments (0 : Rat) r.cumDealt)[i]? <;> simp

theorem foldl_cumTaken (rs : List (IterRes Rat)) (b : Buf Rat) (i : Nat) :
    (rs.foldl Buf.add b).cumTaken.getD i []
      = b.cumTaken.getD i [] ++ rs.filterMap (fun r => (increments (0 : Rat) r.cumTaken)[i]?) := by
  induction rs generalizing b with
  | nil => simp
  | cons r rs ih =>
    rw [List.foldl_cons, ih, Buf.add_cumTaken, addSeries_getD, List.filterMap_cons]
    cases (increments (0 : Rat) r.cumTaken)[i]? <;> simp

theorem replicate_nil_getD (c i : Nat) :
    (List.replicate c ([] : List Rat)).getD i [] = [] := by
  rw [List.getD_eq_getElem?_getD, List.getElem?_replicate]
  split <;> rfl

theorem foldl_completed (rs : List (IterRes Rat)) (b : Buf Rat) :
    (rs.foldl Buf.add b).completed = b.completed + rs.length := by
  induction rs generalizing b with
  | nil => simp
  | cons r rs ih => rw [List.foldl_cons, ih, Buf.add_completed, List.length_cons]; omega

theorem foldl_dpc (rs : List (IterRes Rat)) (b : Buf Rat) :
    (rs.foldl Buf.add b).dpc = b.dpc ++ rs.map (fun r => r.dealt * 100 / r.av) := by
  induction rs generalizing b with
  | nil => simp
  | cons r rs ih => rw [List.foldl_cons, ih, Buf.add_dpc]; simp

theorem increments_sum (s : List Rat) (last : Rat) :
    last + sumL (increments last s) = s.getLastD last := by
  induction s generalizing last with
  | nil => simp [increments, sumL_nil]
  | cons v r ih =>
    rw [increments, sumL_cons, List.getLastD_cons, ← ih v]
    ring

end Agg
