import Srsim.Spec.Proto
import Srsim.Proofs.SimLemmas
/-!
Proof of C08 over whole runs, part 1: the death predicate as a function of the emitted events, the
coupling invariant between the model state and the predicate state, and its frame lemmas.
-/
set_option linter.unusedSectionVars false
set_option linter.unusedVariables false
namespace Sim
variable {α : Type} [Num α]
open Proto

/-! ### the predicate over the emitted events -/

theorem deathRun_append (d : DSt) (l : List (Ev α)) (e : Ev α) :
    deathRun d (l ++ [e]) = (match deathRun d l with | .ok d' => deathStep d' e | .error m => .error m) := by
  induction l generalizing d with
  | nil =>
    simp only [List.nil_append, deathRun]
    cases deathStep d e <;> rfl
  | cons x xs ih =>
    simp only [List.cons_append, deathRun]
    cases deathStep d x with
    | error m => rfl
    | ok d' => exact ih d'

def dst (s : S α) : Except String DSt := deathRun {} s.evs.reverse

theorem dst_emit {s : S α} {d : DSt} (e : Ev α) (h : dst s = .ok d) : dst (emit s e) = deathStep d e := by
  simp only [dst, emit, List.reverse_cons] at h ⊢
  rw [deathRun_append, h]

theorem dst_congr {s s' : S α} (h : s'.evs = s.evs) : dst s' = dst s := by
  simp only [dst, h]

/-- events the predicate ignores -/
def Inert (e : Ev α) : Prop := ∀ d : DSt, deathStep d e = .ok d

theorem inert_sp (o n : Int) : Inert (α := α) (.sp o n) := fun _ => rfl
theorem inert_energy (t : Int) (o n : α) : Inert (.energy t o n) := fun _ => rfl
theorem inert_pick (t : Int) : Inert (α := α) (.pick t) := fun _ => rfl
theorem inert_mark (t : Int) (r : α) : Inert (.mark t r) := fun _ => rfl
theorem inert_healStart (a t : Int) : Inert (α := α) (.healStart a t) := fun _ => rfl
theorem inert_healEnd (a t : Int) : Inert (α := α) (.healEnd a t) := fun _ => rfl
theorem inert_gauge (t o n : Int) (l : List (Int × Int)) : Inert (α := α) (.gauge t o n l) := fun _ => rfl
theorem inert_attackStart (a : Int) (ty : Nat) : Inert (α := α) (.attackStart a ty) := fun _ => rfl
theorem inert_attackEnd (a : Int) (ty : Nat) : Inert (α := α) (.attackEnd a ty) := fun _ => rfl
theorem inert_actionEnd (a : Int) (ty : Nat) (b : Bool) : Inert (α := α) (.actionEnd a ty b) := fun _ => rfl
theorem inert_insertEnd (a : Int) (k : Nat) (p : Int) : Inert (α := α) (.insertEnd a k p) := fun _ => rfl
theorem inert_initialize : Inert (α := α) .initialize := fun _ => rfl
theorem inert_charsAdded (l : List Int) : Inert (α := α) (.charsAdded l) := fun _ => rfl
theorem inert_enemiesAdded (l : List Int) : Inert (α := α) (.enemiesAdded l) := fun _ => rfl
theorem inert_targetsAdded (l : List Int) (o : List (Int × Int)) : Inert (α := α) (.targetsAdded l o) := fun _ => rfl
theorem inert_battleStart : Inert (α := α) .battleStart := fun _ => rfl
theorem inert_phase1Start : Inert (α := α) .phase1Start := fun _ => rfl
theorem inert_phase2Start : Inert (α := α) .phase2Start := fun _ => rfl

/-! ### unit lookup under updates -/

theorem find_map_id (l : List (U α)) (g : U α → U α) (hg : ∀ x, (g x).id = x.id) (t : Int) :
    (l.map g).find? (·.id == t) = (l.find? (·.id == t)).map g := by
  induction l with
  | nil => rfl
  | cons x xs ih =>
    simp only [List.map_cons, List.find?_cons, hg]
    cases (x.id == t)
    · exact ih
    · rfl

theorem unitOf_modUnit (s : S α) (id : Int) (f : U α → U α) (hf : ∀ x, (f x).id = x.id) (t : Int) :
    unitOf (modUnit s id f) t = (unitOf s t).map (fun x => if x.id == id then f x else x) := by
  unfold unitOf modUnit
  apply find_map_id
  intro x
  split
  · exact hf x
  · rfl

theorem lifeOf_setUnit (s : S α) (u u' : U α) (t : Int) (h : unitOf s t = some u) (hid : u'.id = t) (id : Int) :
    lifeOf (setUnit s u') id = if id = t then u'.life else lifeOf s id := by
  unfold lifeOf
  by_cases he : id = t
  · subst he
    rw [unitOf_setUnit_eq s u u' id h hid, if_pos rfl]
  · rw [unitOf_setUnit_ne s u' id (by rw [hid]; exact he), if_neg he]

theorem killerOf_setUnit (s : S α) (u u' : U α) (t : Int) (h : unitOf s t = some u) (hid : u'.id = t) (id : Int) :
    killerOf (setUnit s u') id = if id = t then u'.lastAtk else killerOf s id := by
  unfold killerOf
  by_cases he : id = t
  · subst he
    rw [unitOf_setUnit_eq s u u' id h hid, if_pos rfl]
  · rw [unitOf_setUnit_ne s u' id (by rw [hid]; exact he), if_neg he]

theorem isSome_setUnit (s : S α) (u u' : U α) (t : Int) (h : unitOf s t = some u) (hid : u'.id = t) (id : Int) :
    (unitOf (setUnit s u') id).isSome = (unitOf s id).isSome := by
  by_cases he : id = t
  · subst he
    rw [unitOf_setUnit_eq s u u' id h hid, h]; rfl
  · rw [unitOf_setUnit_ne s u' id (by rw [hid]; exact he)]

/-! ### the coupling invariant -/

/-- the owner of a queued task is the unit that will act -/
def TaskOK (t : Task) : Prop :=
  match t.kind with
  | .action tgt => t.src = tgt
  | .ability _ _ => True
  | .ult a => t.src = a.target
  | .revive o => t.src = o

/-- coupling of the model state with the predicate state; `F` = the units on the field, `p` = the
acting unit is still to take its own action (so, if announced dead, it is dead for good) -/
structure InvF (F : Int → Prop) (p : Prop) (s : S α) (d : DSt) : Prop where
  deadOff : ∀ id, id ∈ d.dead → ¬ F id
  life : ∀ id, F id → lifeOf s id ≤ 2
  pend : ∀ id, id ∈ d.pending ↔ (F id ∧ lifeOf s id = 1)
  limb : ∀ id, id ∈ d.limbo ↔ (F id ∧ lifeOf s id = 2)
  killer : ∀ id, lastDamager d id = killerOf s id
  units : ∀ id, (unitOf s id).isSome = true → F id ∨ id ∈ d.dead
  order : ∀ x ∈ s.turn.order, F x.1
  ordNodup : (s.turn.order.map (·.1)).Nodup
  queue : ∀ t ∈ s.queue, TaskOK t
  act : p → s.active ∈ d.dead → lifeOf s s.active = 1

def onField (s : S α) (id : Int) : Prop := id ∈ s.chars ++ s.enemies

structure Inv (p : Prop) (s : S α) (d : DSt) : Prop where
  nodup : (s.chars ++ s.enemies).Nodup
  inv : InvF (onField s) p s d

/-- the model state is the same as far as the coupling looks -/
structure SameU (s s' : S α) : Prop where
  order : s'.turn.order = s.turn.order
  queue : s'.queue = s.queue
  active : s'.active = s.active
  life : ∀ id, lifeOf s' id = lifeOf s id
  killer : ∀ id, killerOf s' id = killerOf s id
  some : ∀ id, (unitOf s' id).isSome = (unitOf s id).isSome

structure Same (s s' : S α) : Prop where
  chars : s'.chars = s.chars
  enemies : s'.enemies = s.enemies
  u : SameU s s'

theorem SameU.of_units {s s' : S α} (h1 : s'.units = s.units) (h2 : s'.turn.order = s.turn.order)
    (h3 : s'.queue = s.queue) (h4 : s'.active = s.active) : SameU s s' :=
  ⟨h2, h3, h4, fun id => by simp only [lifeOf, unitOf, h1], fun id => by simp only [killerOf, unitOf, h1],
   fun id => by simp only [unitOf, h1]⟩

theorem Same.of_units {s s' : S α} (h1 : s'.units = s.units) (h2 : s'.turn.order = s.turn.order)
    (h3 : s'.queue = s.queue) (h4 : s'.active = s.active) (h5 : s'.chars = s.chars) (h6 : s'.enemies = s.enemies) :
    Same s s' := ⟨h5, h6, SameU.of_units h1 h2 h3 h4⟩

theorem SameU.refl (s : S α) : SameU s s := SameU.of_units rfl rfl rfl rfl
theorem Same.refl (s : S α) : Same s s := Same.of_units rfl rfl rfl rfl rfl rfl

theorem SameU.trans {s s' s'' : S α} (h : SameU s s') (h' : SameU s' s'') : SameU s s'' :=
  ⟨h'.order.trans h.order, h'.queue.trans h.queue, h'.active.trans h.active,
   fun id => (h'.life id).trans (h.life id), fun id => (h'.killer id).trans (h.killer id),
   fun id => (h'.some id).trans (h.some id)⟩

theorem Same.trans {s s' s'' : S α} (h : Same s s') (h' : Same s' s'') : Same s s'' :=
  ⟨h'.chars.trans h.chars, h'.enemies.trans h.enemies, h.u.trans h'.u⟩

theorem InvF.same {F : Int → Prop} {p : Prop} {s s' : S α} {d : DSt} (h : InvF F p s d) (q : SameU s s') :
    InvF F p s' d where
  deadOff := h.deadOff
  life := fun id hf => by rw [q.life]; exact h.life id hf
  pend := fun id => by rw [q.life]; exact h.pend id
  limb := fun id => by rw [q.life]; exact h.limb id
  killer := fun id => by rw [q.killer]; exact h.killer id
  units := fun id hs => h.units id (by rw [← q.some]; exact hs)
  order := by rw [q.order]; exact h.order
  ordNodup := by rw [q.order]; exact h.ordNodup
  queue := by rw [q.queue]; exact h.queue
  act := fun hp hd => by rw [q.active] at hd ⊢; rw [q.life]; exact h.act hp hd

theorem Inv.same {p : Prop} {s s' : S α} {d : DSt} (h : Inv p s d) (q : Same s s') : Inv p s' d where
  nodup := by rw [q.chars, q.enemies]; exact h.nodup
  inv := by
    have : onField s' = onField s := by funext id; simp only [onField, q.chars, q.enemies]
    rw [this]; exact h.inv.same q.u

theorem InvF.weaken {F : Int → Prop} {p : Prop} {s : S α} {d : DSt} (h : InvF F p s d) : InvF F False s d :=
  { h with act := fun hp => hp.elim }

theorem Inv.weaken {p : Prop} {s : S α} {d : DSt} (h : Inv p s d) : Inv False s d := ⟨h.nodup, h.inv.weaken⟩

/-- the predicate state changed in fields the coupling does not look at -/
theorem InvF.dcongr {F : Int → Prop} {p : Prop} {s : S α} {d d' : DSt} (h : InvF F p s d)
    (h1 : d'.dead = d.dead) (h2 : d'.pending = d.pending) (h3 : d'.limbo = d.limbo) (h4 : d'.lastDmg = d.lastDmg) :
    InvF F p s d' where
  deadOff := by rw [h1]; exact h.deadOff
  life := h.life
  pend := by rw [h2]; exact h.pend
  limb := by rw [h3]; exact h.limb
  killer := fun id => by
    have : lastDamager d' id = lastDamager d id := by simp only [lastDamager, h4]
    rw [this]; exact h.killer id
  units := by rw [h1]; exact h.units
  order := h.order
  ordNodup := h.ordNodup
  queue := h.queue
  act := by rw [h1]; exact h.act

theorem Inv.dcongr {p : Prop} {s : S α} {d d' : DSt} (h : Inv p s d)
    (h1 : d'.dead = d.dead) (h2 : d'.pending = d.pending) (h3 : d'.limbo = d.limbo) (h4 : d'.lastDmg = d.lastDmg) :
    Inv p s d' := ⟨h.nodup, h.inv.dcongr h1 h2 h3 h4⟩

/-! ### states and transitions -/

/-- the stream so far is accepted, with predicate state `d`, coupled with the model state -/
structure St (p : Prop) (s : S α) (d : DSt) : Prop where
  run : dst s = .ok d
  inv : Inv p s d

theorem St.same {p : Prop} {s s' : S α} {d : DSt} (h : St p s d) (q : Same s s') (he : s'.evs = s.evs) :
    St p s' d := ⟨(dst_congr he).trans h.run, h.inv.same q⟩

theorem St.emit {p : Prop} {s : S α} {d : DSt} (h : St p s d) {e : Ev α} (he : Inert e) : St p (emit s e) d :=
  ⟨(dst_emit e h.run).trans (he d), h.inv.same (Same.of_units rfl rfl rfl rfl rfl rfl)⟩

/-- a quiet step: the acting unit is kept and the predicate state does not move -/
structure Qt (s s' : S α) : Prop where
  active : s'.active = s.active
  st : ∀ (p : Prop) (d : DSt), St p s d → St p s' d

/-- a content step: the acting unit is kept and the stream stays accepted -/
structure Tr (s s' : S α) : Prop where
  active : s'.active = s.active
  st : ∀ (p : Prop) (d : DSt), St p s d → ∃ d', St p s' d'

theorem Qt.refl (s : S α) : Qt s s := ⟨rfl, fun _ _ h => h⟩
theorem Qt.trans {s s' s'' : S α} (h : Qt s s') (h' : Qt s' s'') : Qt s s'' :=
  ⟨h'.active.trans h.active, fun p d hd => h'.st p d (h.st p d hd)⟩
theorem Tr.refl (s : S α) : Tr s s := ⟨rfl, fun _ d h => ⟨d, h⟩⟩
theorem Tr.trans {s s' s'' : S α} (h : Tr s s') (h' : Tr s' s'') : Tr s s'' :=
  ⟨h'.active.trans h.active, fun p d hd => by
    obtain ⟨d', hd'⟩ := h.st p d hd
    exact h'.st p d' hd'⟩
theorem Qt.tr {s s' : S α} (h : Qt s s') : Tr s s' := ⟨h.active, fun p d hd => ⟨d, h.st p d hd⟩⟩

theorem Qt.same {s s' : S α} (q : Same s s') (he : s'.evs = s.evs) : Qt s s' :=
  ⟨q.u.active, fun _ _ h => h.same q he⟩

theorem Qt.emit {s s' : S α} (h : Qt s s') {e : Ev α} (he : Inert e) : Qt s (emit s' e) :=
  ⟨h.active, fun p d hd => (h.st p d hd).emit he⟩

theorem Tr.emit {s s' : S α} (h : Tr s s') {e : Ev α} (he : Inert e) : Tr s (emit s' e) :=
  h.trans (Qt.emit (Qt.refl _) he).tr

theorem Qt.foldl {β : Type} (f : S α → β → S α) (hf : ∀ s x, Qt s (f s x)) (l : List β) (s : S α) :
    Qt s (l.foldl f s) := by
  induction l generalizing s with
  | nil => exact Qt.refl s
  | cons x xs ih => exact (hf s x).trans (ih (f s x))

theorem Tr.foldl {β : Type} (f : S α → β → S α) (hf : ∀ s x, Tr s (f s x)) (l : List β) (s : S α) :
    Tr s (l.foldl f s) := by
  induction l generalizing s with
  | nil => exact Tr.refl s
  | cons x xs ih => exact (hf s x).trans (ih (f s x))

/-! ### changes of the turn order -/

/-- the new order has distinct ids if the old one had, and no new ids -/
def OrdSub (o o' : List (Int × Int)) : Prop :=
  ((o.map (·.1)).Nodup → (o'.map (·.1)).Nodup) ∧ ∀ x ∈ o', x.1 ∈ o.map (·.1)

theorem OrdSub.refl (o : List (Int × Int)) : OrdSub o o :=
  ⟨id, fun x hx => List.mem_map_of_mem hx⟩

theorem OrdSub.trans {o o' o'' : List (Int × Int)} (h : OrdSub o o') (h' : OrdSub o' o'') : OrdSub o o'' :=
  ⟨fun hn => h'.1 (h.1 hn), fun x hx => by
    obtain ⟨y, hy, hyx⟩ := List.mem_map.1 (h'.2 x hx)
    rw [← hyx]; exact h.2 y hy⟩

theorem OrdSub.of_perm {o o' : List (Int × Int)} (h : (o'.map (·.1)).Perm (o.map (·.1))) : OrdSub o o' :=
  ⟨fun hn => h.nodup_iff.2 hn, fun x hx => h.mem_iff.1 (List.mem_map_of_mem hx)⟩

theorem OrdSub.of_ids {o o' : List (Int × Int)} (h : o'.map (·.1) = o.map (·.1)) : OrdSub o o' :=
  OrdSub.of_perm (by rw [h])

theorem ordSub_sort (st : Turn.St α) (l : List (Int × Int)) : OrdSub l (Turn.sortOrder st l) :=
  OrdSub.of_perm ((List.mergeSort_perm _ _).map _)

theorem ordSub_setG (l : List (Int × Int)) (id g : Int) : OrdSub l (Turn.setG l id g) := by
  apply OrdSub.of_ids
  unfold Turn.setG
  rw [List.map_map]
  apply List.map_congr_left
  intro t _
  simp only [Function.comp]
  split <;> rfl

theorem ordSub_moveTo (l : List (Int × Int)) (id : Int) (n : Nat) : OrdSub l (Turn.moveTo l id n) := by
  unfold Turn.moveTo
  cases hf : l.find? (fun t => t.1 == id) with
  | none => exact OrdSub.refl l
  | some t =>
    simp only
    have htm : t ∈ l := List.mem_of_find?_eq_some hf
    have hti : t.1 = id := by simpa using List.find?_some hf
    have hperm : (List.take n (l.filter (fun x => x.1 != id)) ++ [t] ++ List.drop n (l.filter (fun x => x.1 != id))).Perm
        (t :: l.filter (fun x => x.1 != id)) := by
      rw [List.append_assoc]
      refine List.perm_middle.trans (List.Perm.cons _ ?_)
      simp
    constructor
    · intro hn
      refine (hperm.map (·.1)).nodup_iff.2 ?_
      rw [List.map_cons, List.nodup_cons]
      constructor
      · intro hm
        obtain ⟨y, hy, hyt⟩ := List.mem_map.1 hm
        have := (List.mem_filter.1 hy).2
        rw [hti] at hyt
        simp [hyt] at this
      · exact List.Nodup.sublist (List.Sublist.map _ List.filter_sublist) hn
    · intro x hx
      rcases List.mem_cons.1 (hperm.mem_iff.1 hx) with rfl | hx
      · exact List.mem_map_of_mem htm
      · exact List.mem_map_of_mem (List.mem_filter.1 hx).1

theorem ordSub_eraseP (l : List (Int × Int)) (q : Int × Int → Bool) : OrdSub l (l.eraseP q) :=
  ⟨fun hn => List.Nodup.sublist (List.Sublist.map _ List.eraseP_sublist) hn,
   fun x hx => List.mem_map_of_mem (List.eraseP_sublist.subset hx)⟩

theorem ordSub_advance (st : Turn.St α) (l : List (Int × Int)) (actor : Int) (a : α) :
    OrdSub l (Turn.advance st l actor a) := by
  apply OrdSub.of_ids
  unfold Turn.advance
  rw [List.map_map]
  apply List.map_congr_left
  intro t _
  simp only [Function.comp]
  split <;> rfl

theorem ordSub_setGaugeI (st : Turn.St α) (id g : Int) : OrdSub st.order (Turn.setGaugeI st id g).1.order := by
  unfold Turn.setGaugeI
  split
  · exact OrdSub.refl _
  · split
    · exact OrdSub.refl _
    · exact ((ordSub_setG _ _ _).trans (ordSub_moveTo _ _ _)).trans (ordSub_sort _ _)

theorem ordSub_reset (st : Turn.St α) : OrdSub st.order (Turn.step st .reset).1.order := by
  simp only [Turn.step]
  split
  · exact OrdSub.refl _
  · exact ((ordSub_setG _ _ _).trans (ordSub_moveTo _ _ _)).trans (ordSub_sort _ _)

/-- a change of the fields outside the units -/
theorem Inv.frame {p : Prop} {s s' : S α} {d : DSt} (h : Inv p s d) (hc : s'.chars = s.chars)
    (he : s'.enemies = s.enemies) (hu : s'.units = s.units) (ha : s'.active = s.active)
    (ho : OrdSub s.turn.order s'.turn.order) (hq : ∀ t ∈ s'.queue, TaskOK t) : Inv p s' d := by
  have hF : onField s' = onField s := by funext id; simp only [onField, hc, he]
  have q : SameU s { s' with queue := s.queue, turn := s.turn } := SameU.of_units hu rfl rfl ha
  have h1 := h.inv.same q
  refine ⟨by rw [hc, he]; exact h.nodup, ?_⟩
  rw [hF]
  exact { deadOff := h1.deadOff, life := h1.life, pend := h1.pend, limb := h1.limb, killer := h1.killer,
          units := h1.units, act := h1.act, queue := hq,
          order := fun x hx => by
            obtain ⟨y, hy, hyx⟩ := List.mem_map.1 (ho.2 x hx)
            rw [← hyx]; exact h.inv.order y hy
          ordNodup := ho.1 h.inv.ordNodup }

theorem Qt.frame {s s' : S α} (hv : s'.evs = s.evs) (hc : s'.chars = s.chars)
    (he : s'.enemies = s.enemies) (hu : s'.units = s.units) (ha : s'.active = s.active)
    (ho : OrdSub s.turn.order s'.turn.order) (hq : (∀ t ∈ s.queue, TaskOK t) → ∀ t ∈ s'.queue, TaskOK t) : Qt s s' :=
  ⟨ha, fun _ _ h => ⟨(dst_congr hv).trans h.run, h.inv.frame hc he hu ha ho (hq h.inv.inv.queue)⟩⟩

end Sim
