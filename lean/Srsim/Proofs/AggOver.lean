import Srsim.Proofs.AggHist
import Mathlib.Tactic.NormNum.OfScientific
import Mathlib.Data.Rat.Floor
/-! Helper lemmas about `Agg.toOver` / `Agg.ceilI` at `ℚ`. -/
namespace Agg

theorem ofSci_rat (m : Nat) (b : Bool) (e : Nat) :
    (@OfScientific.ofScientific Rat Num.instOfSci m b e)
      = (OfScientific.ofScientific m b e : Rat) := rfl

theorem lit349_pos : (0 : Rat) < (@OfScientific.ofScientific Rat Num.instOfSci 349 true 2) := by
  rw [ofSci_rat]; norm_num

theorem ceilI_pos (x : Rat) (hx : 0 < x) : 0 < ceilI x := by
  unfold ceilI
  simp only [Num.trunc_rat, Num.eqb_rat, Num.ofInt_rat, Rat.truncZ, le_of_lt hx, if_true]
  have h0 : (0 : Int) ≤ x.floor := Rat.le_floor_iff.mpr (by simpa using le_of_lt hx)
  split_ifs with h1
  · have : (0 : Rat) < (x.floor : Rat) := by
      have := of_decide_eq_true h1
      rw [this]; exact hx
    exact_mod_cast this
  · omega

theorem MathOK.sqrt_nonneg' {m : MathFns Rat} (hm : MathOK m) (x : Rat) : (0 : Rat) ≤ m.sqrt x := by
  have := hm.sqrt_nonneg x
  simpa using this

theorem MathOK.cbrt_pos' {m : MathFns Rat} (hm : MathOK m) (n : Nat) (hn : 0 < n) :
    (0 : Rat) < m.cbrt n := by
  have := hm.cbrt_pos n hn
  simpa using this

theorem head_le_last_of_sorted (l : List Rat) (d : Rat) (hs : l.Pairwise (fun a b => a ≤ b)) :
    l.headD d ≤ l.getLastD d := by
  cases l with
  | nil => simp
  | cons a t =>
    have hmem : (a :: t).getLastD d ∈ a :: t := by
      rw [List.getLastD_cons]
      exact List.getLastD_mem_cons
    simp only [List.headD_cons]
    rcases List.mem_cons.mp hmem with h | h
    · rw [h]
    · exact (List.pairwise_cons.mp hs).1 _ h

theorem over_nb_pos (c sd cb mn mx : Rat) (hc : 0 < c) (hsd : 0 ≤ sd) (hcb : 0 < cb)
    (hle : mn ≤ mx) (hh : c * sd / cb ≠ 0) (hne : mx ≠ mn) :
    0 < ceilI ((mx - mn) / (c * sd / cb)) := by
  apply ceilI_pos
  have h1 : 0 ≤ c * sd / cb := div_nonneg (mul_nonneg hc.le hsd) hcb.le
  have h2 : 0 < c * sd / cb := lt_of_le_of_ne h1 (Ne.symm hh)
  have h3 : 0 < mx - mn := sub_pos.mpr (lt_of_le_of_ne hle (Ne.symm hne))
  exact div_pos h3 h2

theorem over_perm (m : MathFns Rat) (l₁ l₂ : List Rat) (h : l₁.Perm l₂) : toOver m l₁ = toOver m l₂ := by
  have e1 : l₁.isEmpty = l₂.isEmpty := by
    rw [Bool.eq_iff_iff]; simp only [List.isEmpty_iff]
    exact ⟨fun e => by subst e; exact h.symm.eq_nil, fun e => by subst e; exact h.eq_nil⟩
  unfold toOver
  rw [e1, sortF_eq_of_perm l₁ l₂ h]

theorem over_hist_sum (m : MathFns Rat) (xs : List Rat) (o : Over Rat) (h : toOver m xs = .ok o) :
    histSum o.hist = xs.length := by
  unfold toOver at h
  split at h
  · rename_i he
    have : xs = [] := List.isEmpty_iff.mp he
    cases h
    subst this
    rfl
  · simp only [] at h
    split at h
    · cases h
      simp [histSum, sortF_length]
    · split at h
      · cases h
      · rename_i hnb
        cases h
        simp only []
        rw [hist_sum _ _ _ (by omega), sortF_length]

theorem no_crash (m : MathFns Rat) (hm : MathOK m) (xs : List Rat) : (toOver m xs).isOk = true := by
  unfold toOver
  split
  · rfl
  · rename_i he
    simp only []
    split
    · rfl
    · rename_i h2
      split
      · rename_i h3
        exfalso
        have hne : xs ≠ [] := fun e => he (by simp [e])
        have hlen : 0 < (sortF xs).length := by
          rw [sortF_length]; exact List.length_pos_iff.mpr hne
        simp only [Bool.or_eq_true, Num.eqb_rat, decide_eq_true_eq, not_or] at h2
        have := over_nb_pos _ _ _ _ _ lit349_pos (hm.sqrt_nonneg' (variance (sortF xs)))
          (hm.cbrt_pos' _ hlen) (head_le_last_of_sorted _ _ (sortF_sorted xs))
          (by simpa using h2.1) h2.2
        exact absurd this (not_lt.mpr h3)
      · rfl

end Agg
