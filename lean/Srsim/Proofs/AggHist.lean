import Srsim.Proofs.AggStream
/-! Helper lemmas about `Agg.histCounts`. -/
namespace Agg

theorem histSum_eq_sum (h : List Nat) : histSum h = h.sum := by
  induction h with
  | nil => rfl
  | cons a t ih => simp [histSum] at *; omega

theorem binOf_lt (mn delta : Rat) (nbins : Nat) (hn : 0 < nbins) (x : Rat) :
    binOf mn delta nbins x < nbins := by
  unfold binOf
  simp only []
  split_ifs <;> omega

theorem sum_range_indicator (k n : Nat) :
    ((List.range n).map fun i => if k = i then 1 else 0).sum = if k < n then 1 else 0 := by
  induction n with
  | zero => simp
  | succ n ih =>
    rw [List.range_succ, List.map_append, List.sum_append, ih]
    simp only [List.map_cons, List.map_nil, List.sum_cons, List.sum_nil]
    split_ifs <;> omega

theorem partition_count {β : Type} (f : β → Nat) (n : Nat) (l : List β) (hf : ∀ x ∈ l, f x < n) :
    ((List.range n).map fun i => (l.filter fun x => f x == i).length).sum = l.length := by
  induction l with
  | nil => simp
  | cons x l ih =>
    have hx : f x < n := hf x List.mem_cons_self
    have hl := ih (fun y hy => hf y (List.mem_cons_of_mem _ hy))
    have key : ((List.range n).map fun i => ((x :: l).filter fun y => f y == i).length)
        = (List.range n).map fun i =>
            (l.filter fun y => f y == i).length + (if f x = i then 1 else 0) := by
      apply List.map_congr_left
      intro i _
      by_cases h : f x = i
      · simp [h]
      · simp [h]
    rw [key, List.sum_map_add, hl, sum_range_indicator]
    simp [hx]

theorem hist_sum (mn mx : Rat) (nbins : Nat) (hn : 0 < nbins) (l : List Rat) :
    histSum (histCounts mn mx nbins l) = l.length := by
  rw [histSum_eq_sum]
  unfold histCounts
  exact partition_count _ nbins l (fun x _ => binOf_lt _ _ _ hn x)

end Agg
