import Srsim.Spec.Gcs.Grammar
/-!
Helper lemmas for `Props/C14.lean`: the Pratt parser model inverts the printer `Gcs.Grammar.toks`.
-/
namespace Gcs.Grammar
open Gcs.Lex Gcs.Parse

/-- parser state over a token list, positioned just before token number `k` -/
def mk (ts : List Tok) (k : Nat) : P := ⟨ts.toArray, (k : Int) - 1⟩

/-- first token of a list (zero token when empty) -/
def hd (l : List Tok) : Tok := l.head?.getD zeroTok

theorem next_mk (ts : List Tok) (k : Nat) : (mk ts k).next = (hd (ts.drop k), mk ts (k+1)) := by
  unfold P.next mk hd
  simp only [List.head?_drop]
  have h1 : ((k:Int) - 1 + 1) = k := by omega
  simp only [h1]
  congr 1
  · by_cases h : k < ts.length
    · simp [h]
    · simp [h]
  · congr 1
    omega

theorem peek_mk (ts : List Tok) (k : Nat) : (mk ts k).peek = hd (ts.drop k) := by
  simp [P.peek, next_mk]

theorem drop_add {ts a b : List Tok} {k : Nat} (h : ts.drop k = a ++ b) :
    ts.drop (k + a.length) = b := by
  rw [← List.drop_drop, h, List.drop_left]

theorem drop_succ {ts b : List Tok} {a : Tok} {k : Nat} (h : ts.drop k = a :: b) :
    ts.drop (k + 1) = b := by
  rw [← List.drop_drop, h]; rfl

theorem binop_cases {op : Nat} (h : isBinaryOp op = true) :
    op = 12 ∨ op = 13 ∨ op = 14 ∨ op = 15 ∨ op = 18 ∨ op = 19 ∨ op = 21 ∨ op = 22 ∨ op = 23 ∨ op = 24 ∨
      op = 25 ∨ op = 26 := by
  simp [isBinaryOp, tAnd, tOr, tPlus, tMinus, tSlash, tAsterisk, tEq, tNe, tLt, tLe, tGt, tGe] at h
  rcases h with (((((((((((h|h)|h)|h)|h)|h)|h)|h)|h)|h)|h)|h) <;> simp [h]

theorem binop_facts {op : Nat} (h : isBinaryOp op = true) :
    2 ≤ prec op ∧ prec op ≤ 7 ∧ op ≠ tTerm ∧ op ≠ tLParen := by
  rcases binop_cases h with h | h | h | h | h | h | h | h | h | h | h | h <;> subst h <;> decide

theorem prec_le {t : Nat} (h : t ≠ tLParen) : prec t ≤ 7 := by
  unfold prec
  repeat' split
  all_goals first | omega | simp_all

theorem prec_ge (t : Nat) : 1 ≤ prec t := by
  unfold prec
  repeat' split
  all_goals omega

/-- the continuation at which an operand printed at context `c` is followed by `rest` -/
def StopsP (c : Nat) (rest : List Tok) : Prop :=
  ((hd rest).typ = tTerm ∨ prec (hd rest).typ ≤ c) ∧ (hd rest).typ ≠ tLParen

theorem infixLoop_stop (ts : List Tok) (j c : Nat) (L : Expr) (g : Nat)
    (h : (hd (ts.drop j)).typ = tTerm ∨ prec (hd (ts.drop j)).typ ≤ c) :
    infixLoop (g+1) (mk ts j) c L = .ok L (mk ts j) := by
  rw [infixLoop.eq_2]
  simp only [peek_mk]
  rcases h with h | h
  · simp [h]
  · have : ¬ c < prec (hd (ts.drop j)).typ := by omega
    simp [this]

theorem infixLoop_step (ts : List Tok) (j c : Nat) (L : Expr) (g : Nat) (op : Nat) (rest' : List Tok)
    (hdr : ts.drop j = tk op :: rest') (hb : isBinaryOp op = true) (hc : c < prec op) :
    infixLoop (g+1) (mk ts j) c L =
      match parseExpr g (mk ts (j+1)) (prec op) with
      | .ok r p2 => infixLoop g p2 c (.binary op L r)
      | .err => .err
      | .fuel => .fuel := by
  have hh : hd (ts.drop j) = tk op := by simp [hd, hdr]
  have ht : (tk op).typ = op := rfl
  have hne := (binop_facts hb).2.2.1
  rw [infixLoop.eq_2]
  simp only [peek_mk, next_mk, hh, ht, hb]
  simp [hne, hc]
  rfl

/-- fuel that suffices for a tree -/
def need : E → Nat
  | .unary _ r => need r + 3
  | .binary _ l r => need l + need r + 5
  | _ => 2

/-- the induction statement, continuation-passing in the infix loop that follows the operand -/
def Aprop (e : E) : Prop :=
  ∀ (c c' : Nat) (ts : List Tok) (k : Nat) (rest : List Tok) (x : Expr) (q : P) (g0 : Nat),
    1 ≤ c → c ≤ c' → ts.drop k = toks c' e ++ rest → StopsP (c'+1) rest →
    (∀ g, g0 ≤ g → infixLoop g (mk ts (k + (toks c' e).length)) c e.toExpr = .ok x q) →
    ∀ f, g0 + need e ≤ f → parseExpr f (mk ts k) c = .ok x q

/-- the unparenthesised binary case -/
theorem B_lemma (op : Nat) (l r : E) (hb : isBinaryOp op = true) (hl : Aprop l) (hr : Aprop r)
    (c : Nat) (ts : List Tok) (k : Nat) (rest : List Tok) (x : Expr) (q : P) (g0 : Nat)
    (hc1 : 1 ≤ c) (hcp : c < prec op)
    (hdr : ts.drop k = (toks (prec op - 1) l ++ [tk op] ++ toks (prec op) r) ++ rest)
    (hst : StopsP (prec op) rest)
    (hk : ∀ g, g0 ≤ g → infixLoop g
        (mk ts (k + (toks (prec op - 1) l ++ [tk op] ++ toks (prec op) r).length)) c
        (Expr.binary op l.toExpr r.toExpr) = .ok x q) :
    ∀ f, g0 + need l + need r + 2 ≤ f → parseExpr f (mk ts k) c = .ok x q := by
  intro f hf
  obtain ⟨hp2, hp7, hnt, hnl⟩ := binop_facts hb
  have hdr1 : ts.drop k = toks (prec op - 1) l ++ (tk op :: (toks (prec op) r ++ rest)) := by
    rw [hdr]; simp
  have hdr2 : ts.drop (k + (toks (prec op - 1) l).length) = tk op :: (toks (prec op) r ++ rest) :=
    drop_add hdr1
  have hdr3 : ts.drop (k + (toks (prec op - 1) l).length + 1) = toks (prec op) r ++ rest :=
    drop_succ hdr2
  have hdr4 : ts.drop (k + (toks (prec op - 1) l).length + 1 + (toks (prec op) r).length) = rest :=
    drop_add hdr3
  refine hl c (prec op - 1) ts k _ x q (g0 + need r + 2) hc1 (by omega) hdr1 ?_ ?_ f (by omega)
  · refine ⟨Or.inr ?_, ?_⟩
    · show prec (tk op).typ ≤ _
      show prec op ≤ _
      omega
    · exact hnl
  · intro g hg
    obtain ⟨g', rfl⟩ : ∃ g', g = g' + 1 := ⟨g - 1, by omega⟩
    rw [infixLoop_step ts _ c _ g' op _ hdr2 hb hcp]
    have hR : parseExpr g' (mk ts (k + (toks (prec op - 1) l).length + 1)) (prec op)
        = .ok r.toExpr (mk ts (k + (toks (prec op - 1) l).length + 1 + (toks (prec op) r).length)) := by
      refine hr (prec op) (prec op) ts _ rest _ _ 1 (by omega) (Nat.le_refl _) hdr3 ?_ ?_ g' (by omega)
      · exact ⟨hst.1.imp id (fun h => by omega), hst.2⟩
      · intro g hg
        obtain ⟨g'', rfl⟩ : ∃ g'', g = g'' + 1 := ⟨g - 1, by omega⟩
        apply infixLoop_stop
        rw [hdr4]; exact hst.1
    rw [hR]
    simp only
    have := hk g' (by omega)
    have e1 : k + (toks (prec op - 1) l ++ [tk op] ++ toks (prec op) r).length
        = k + (toks (prec op - 1) l).length + 1 + (toks (prec op) r).length := by
      simp; omega
    rw [e1] at this
    exact this


/-- atoms: one token, then the loop -/
theorem atom_lemma (t : Tok) (a : Expr) (hpre : hasPrefix t.typ = true)
    (hpp : ∀ (ts : List Tok) (k f : Nat), hd (ts.drop k) = t →
      parsePrefix (f+1) (mk ts k) = .ok a (mk ts (k+1)))
    (c : Nat) (ts : List Tok) (k : Nat) (rest : List Tok) (x : Expr) (q : P) (g0 : Nat)
    (hdr : ts.drop k = [t] ++ rest)
    (hk : ∀ g, g0 ≤ g → infixLoop g (mk ts (k + 1)) c a = .ok x q) :
    ∀ f, g0 + 2 ≤ f → parseExpr f (mk ts k) c = .ok x q := by
  intro f hf
  obtain ⟨f', rfl⟩ : ∃ f', f = f' + 2 := ⟨f - 2, by omega⟩
  have hh : hd (ts.drop k) = t := by simp [hd, hdr]
  rw [parseExpr.eq_2]
  simp only [next_mk, hh, hpre, hpp ts k f' hh]
  simpa using hk (f'+1) (by omega)

theorem A_thm (e : E) (hwf : e.WF) : Aprop e := by
  induction e with
  | num w =>
    intro c c' ts k rest x q g0 hc1 hcc hdr hst hk f hf
    refine atom_lemma (tk tNumber w) (.num w) (show hasPrefix tNumber = true by decide) ?_ c ts k rest x q g0 hdr hk f hf
    intro ts k f hh
    have hw : numberOk w = true := hwf
    rw [parsePrefix.eq_2]
    simp only [next_mk, hh]
    simp [tk, tNumber, tIdent, hw]
  | str w =>
    intro c c' ts k rest x q g0 hc1 hcc hdr hst hk f hf
    refine atom_lemma (tk tString w) (.str w) (show hasPrefix tString = true by decide) ?_ c ts k rest x q g0 hdr hk f hf
    intro ts k f hh
    rw [parsePrefix.eq_2]
    simp only [next_mk, hh]
    simp [tk, tNumber, tIdent, tString, tBool]
  | null =>
    intro c c' ts k rest x q g0 hc1 hcc hdr hst hk f hf
    refine atom_lemma (tk tNull) .null (show hasPrefix tNull = true by decide) ?_ c ts k rest x q g0 hdr hk f hf
    intro ts k f hh
    rw [parsePrefix.eq_2]
    simp only [next_mk, hh]
    simp [tk, tNumber, tIdent, tString, tBool, tNull]
  | ident w =>
    intro c c' ts k rest x q g0 hc1 hcc hdr hst hk f hf
    refine atom_lemma (tk tIdent w) (.ident w) (show hasPrefix tIdent = true by decide) ?_ c ts k rest x q g0 hdr hk f hf
    intro ts k f hh
    rw [parsePrefix.eq_2]
    simp only [next_mk, hh]
    simp [tk]
  | unary op r ih =>
    obtain ⟨hop, hwr⟩ : (op = tNot ∨ op = tMinus) ∧ r.WF := hwf
    have ihr := ih hwr
    intro c c' ts k rest x q g0 hc1 hcc hdr hst hk f hf
    simp only [need] at hf
    have hdr0 : ts.drop k = tk op :: (toks 8 r ++ rest) := by rw [hdr]; rfl
    have hh : hd (ts.drop k) = tk op := by simp [hd, hdr0]
    have hdr1 : ts.drop (k + 1) = toks 8 r ++ rest := drop_succ hdr0
    have hdr2 : ts.drop (k + 1 + (toks 8 r).length) = rest := drop_add hdr1
    have hp7 : prec (hd rest).typ ≤ 7 := prec_le hst.2
    obtain ⟨f', rfl⟩ : ∃ f', f = f' + 2 := ⟨f - 2, by omega⟩
    have hR : parseExpr f' (mk ts (k + 1)) 8 = .ok r.toExpr (mk ts (k + 1 + (toks 8 r).length)) := by
      refine ihr 8 8 ts _ rest _ _ 1 (by omega) (Nat.le_refl _) hdr1 ⟨Or.inr (by omega), hst.2⟩ ?_ f'
        (by omega)
      intro g hg
      obtain ⟨g', rfl⟩ : ∃ g', g = g' + 1 := ⟨g - 1, by omega⟩
      apply infixLoop_stop
      rw [hdr2]; exact Or.inr (by omega)
    have hpre : hasPrefix (tk op).typ = true := by
      rcases hop with rfl | rfl <;> decide
    have hpp : parsePrefix (f'+1) (mk ts k) = .ok (.unary op r.toExpr) (mk ts (k + 1 + (toks 8 r).length)) := by
      rw [parsePrefix.eq_2]
      simp only [next_mk, hh]
      have ht : (tk op).typ = op := rfl
      simp only [ht, hR]
      rcases hop with rfl | rfl <;> simp [tNot, tMinus, tIdent, tNumber, tBool, tString, tNull, kFn]
    rw [parseExpr.eq_2]
    simp only [next_mk, hh, hpre, hpp]
    have := hk (f'+1) (by omega)
    have e1 : k + (toks c' (E.unary op r)).length = k + 1 + (toks 8 r).length := by
      simp [toks]; omega
    rw [e1] at this
    simpa [E.toExpr] using this
  | binary op l r ihl ihr =>
    obtain ⟨hb, hwl, hwr⟩ : isBinaryOp op = true ∧ l.WF ∧ r.WF := hwf
    have hl := ihl hwl
    have hr := ihr hwr
    obtain ⟨hp2, hp7, hnt, hnl⟩ := binop_facts hb
    intro c c' ts k rest x q g0 hc1 hcc hdr hst hk f hf
    simp only [need] at hf
    by_cases hpar : prec op ≤ c'
    · -- parenthesised
      have htk : toks c' (E.binary op l r)
          = [tk tLParen] ++ (toks (prec op - 1) l ++ [tk op] ++ toks (prec op) r) ++ [tk tRParen] := by
        simp [toks, hpar]
      generalize hbody : toks (prec op - 1) l ++ [tk op] ++ toks (prec op) r = body at htk
      rw [htk] at hdr hk
      have hdr0 : ts.drop k = tk tLParen :: (body ++ (tk tRParen :: rest)) := by rw [hdr]; simp
      have hh : hd (ts.drop k) = tk tLParen := by simp [hd, hdr0]
      have hdr1 : ts.drop (k + 1) = body ++ (tk tRParen :: rest) := drop_succ hdr0
      have hdr2 : ts.drop (k + 1 + body.length) = tk tRParen :: rest := drop_add hdr1
      obtain ⟨f', rfl⟩ : ∃ f', f = f' + 2 := ⟨f - 2, by omega⟩
      have hR : parseExpr f' (mk ts (k + 1)) 1
          = .ok (Expr.binary op l.toExpr r.toExpr) (mk ts (k + 1 + body.length)) := by
        subst hbody
        refine B_lemma op l r hb hl hr 1 ts (k+1) (tk tRParen :: rest) _ _ 1 (Nat.le_refl _) (by omega)
          hdr1 ⟨Or.inr ?_, show tRParen ≠ tLParen by decide⟩ ?_ f' (by omega)
        · show prec tRParen ≤ _
          have : prec tRParen = 1 := by decide
          omega
        · intro g hg
          obtain ⟨g', rfl⟩ : ∃ g', g = g' + 1 := ⟨g - 1, by omega⟩
          apply infixLoop_stop
          rw [hdr2]; exact Or.inr (show prec tRParen ≤ 1 by decide)
      have hpp : parsePrefix (f'+1) (mk ts k)
          = .ok (Expr.binary op l.toExpr r.toExpr) (mk ts (k + 1 + body.length + 1)) := by
        rw [parsePrefix.eq_2]
        simp only [next_mk, hh]
        have ht : (tk tLParen).typ = tLParen := rfl
        simp only [ht, hR, peek_mk, hdr2]
        simp [tLParen, tNot, tMinus, tIdent, tNumber, tBool, tString, tNull, kFn, hd, tk, tRParen, next_mk]
      rw [parseExpr.eq_2]
      simp only [next_mk, hh, hpp]
      have := hk (f'+1) (by omega)
      have e1 : k + ([tk tLParen] ++ body ++ [tk tRParen]).length = k + 1 + body.length + 1 := by
        simp; omega
      rw [e1] at this
      simpa [E.toExpr, hasPrefix, tk, tLParen, tIdent, tNumber, tBool, tString, tNull, kFn, tNot, tMinus] using this
    · -- not parenthesised
      have htk : toks c' (E.binary op l r)
          = toks (prec op - 1) l ++ [tk op] ++ toks (prec op) r := by
        simp [toks, hpar]
      rw [htk] at hdr hk
      refine B_lemma op l r hb hl hr c ts k rest x q g0 hc1 (by omega) hdr ?_ hk f
        (by omega)
      exact ⟨hst.1.imp id (fun h => by omega), hst.2⟩

end Gcs.Grammar
