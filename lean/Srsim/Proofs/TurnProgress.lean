import Srsim.Proofs.Turn
import Srsim.Proofs.TurnStep
import Mathlib.Tactic.Linarith
import Mathlib.Tactic.Positivity
import Mathlib.Tactic.FieldSimp
import Mathlib.Tactic.Ring
/-! Helper lemmas for `Props/C02Progress.lean`: the progress invariant is kept by `start` and by
`reset`.  `Prog` is the body of `Progress` (which is defined in the Props file). -/
namespace Turn

/-- the body of `Progress` -/
def Prog (s : S) (c : Int → Nat) : Prop :=
  ∀ t ∈ s.order, (c t.1 : Rat) * (10000 / s.spd t.1) ≤ s.totalAV + (t.2 : Rat) / s.spd t.1

/-- while a turn is open the acting unit is in the order with gauge 0 (true between `start` and
`reset` when nothing else happens) -/
def OpenZero (s : S) : Prop := s.activeTurn = true → (s.active, (0 : Int)) ∈ s.order

/-- the strengthened induction invariant -/
def ProgInv (s : S) (c : Int → Nat) : Prop :=
  Inv s ∧ SpeedsPos s ∧ s.cost = 1 ∧ Prog s c ∧ OpenZero s

/-- the count update of `runRounds` at a `reset` -/
def bump (s : S) (c : Int → Nat) : Int → Nat :=
  if s.activeTurn = true then (fun i => if i = s.active then c i + 1 else c i) else c

theorem truncZ_base : Rat.truncZ (10000 * 1) = 10000 := by
  have h : (10000 * 1 : Rat) = ((10000 : Int) : Rat) := by norm_num
  rw [h]
  unfold Rat.truncZ
  have h0 : (0 : Rat) ≤ ((10000 : Int) : Rat) := by norm_num
  rw [if_pos h0]
  exact Rat.floor_intCast 10000

/-- one unit, `start`: the clock grows by `a`, the gauge shrinks by at most `a · speed` -/
theorem prog_advance_one (T a sp δc : Rat) (g g' : Int) (hsp : 0 < sp)
    (hg : (g : Rat) - a * sp ≤ (g' : Rat)) (h : δc ≤ T + (g : Rat) / sp) :
    δc ≤ (T + a) + (g' : Rat) / sp := by
  have h1 : ((g : Rat) - a * sp) / sp ≤ (g' : Rat) / sp :=
    div_le_div_of_nonneg_right hg (le_of_lt hsp)
  have h2 : ((g : Rat) - a * sp) / sp = (g : Rat) / sp - a := by
    field_simp
  rw [h2] at h1
  linarith

theorem progInv_start (s : S) (c : Int → Nat) (hj : ProgInv s c) :
    ProgInv (step s .start).1 c := by
  obtain ⟨h, hs, hcost, hp, ho⟩ := hj
  cases hna : s.activeTurn with
  | true => rw [start_active s hna]; exact ⟨h, hs, hcost, hp, ho⟩
  | false =>
    cases hsort : sortOrder s s.order with
    | nil => rw [start_nil s hna hsort]; exact ⟨h, hs, hcost, hp, ho⟩
    | cons hd tl =>
      obtain ⟨hi', hs'⟩ := inv_start s hs h
      obtain ⟨hm, ha, hmin⟩ := start_facts s hs h hd tl hsort
      rw [start_eq s hna hd tl hsort] at hi' hs' ⊢
      refine ⟨hi', hs', Num.one_rat, ?_, ?_⟩
      · intro x hx
        obtain ⟨t, ht, rfl⟩ := (mem_advance s (hd :: tl) hd.1 (av s hd) x).mp hx
        have ht' : t ∈ s.order := (mem_sortOrder s s.order t).mp (by rw [hsort]; exact ht)
        show (c (if t.1 = hd.1 then (t.1, (0 : Int)) else (t.1, t.2 - Rat.truncZ (av s hd * s.spd t.1))).1 : Rat)
            * (10000 / s.spd (if t.1 = hd.1 then (t.1, (0 : Int)) else (t.1, t.2 - Rat.truncZ (av s hd * s.spd t.1))).1)
          ≤ (s.totalAV + av s hd : Rat)
            + (((if t.1 = hd.1 then (t.1, (0 : Int)) else (t.1, t.2 - Rat.truncZ (av s hd * s.spd t.1))).2 : Int) : Rat)
              / s.spd (if t.1 = hd.1 then (t.1, (0 : Int)) else (t.1, t.2 - Rat.truncZ (av s hd * s.spd t.1))).1
        by_cases hc : t.1 = hd.1
        · rw [if_pos hc]
          have h1 := hp hd hm
          rw [← av_eq] at h1
          show (c t.1 : Rat) * (10000 / s.spd t.1) ≤ (s.totalAV + av s hd : Rat) + ((0 : Int) : Rat) / s.spd t.1
          rw [hc]
          simp only [Int.cast_zero, zero_div, add_zero]
          exact h1
        · rw [if_neg hc]
          show (c t.1 : Rat) * (10000 / s.spd t.1)
            ≤ (s.totalAV + av s hd : Rat) + ((t.2 - Rat.truncZ (av s hd * s.spd t.1) : Int) : Rat) / s.spd t.1
          exact prog_advance_one s.totalAV (av s hd) (s.spd t.1) _ t.2 _ (spd_pos s hs t.1)
            (advance_bounds s hs (av s hd) ha t (hmin t ht')).2.1 (hp t ht')
      · intro _
        show (hd.1, (0 : Int)) ∈ advance s (hd :: tl) hd.1 (av s hd)
        rw [mem_advance]
        exact ⟨hd, by simp, by rw [if_pos rfl]⟩

theorem progInv_reset (s : S) (c : Int → Nat) (hj : ProgInv s c) :
    ProgInv (step s .reset).1 (bump s c) := by
  obtain ⟨h, hs, hcost, hp, ho⟩ := hj
  unfold bump
  cases hact : s.activeTurn with
  | false =>
    rw [reset_inactive s hact]
    simp only [Bool.false_eq_true, if_false]
    exact ⟨h, hs, hcost, hp, ho⟩
  | true =>
    obtain ⟨hi', hs'⟩ := inv_reset s hs h
    have hz := ho hact
    rw [reset_eq s hact, resetOrder_eq, hcost, truncZ_base] at hi' hs' ⊢
    simp only [if_true]
    refine ⟨hi', hs', rfl, ?_, ?_⟩
    · intro x hx
      have hx' : x ∈ sortOrder s (moveTo (setG s.order s.active 10000) s.active s.order.length) := hx
      show ((if x.1 = s.active then c x.1 + 1 else c x.1 : Nat) : Rat) * (10000 / s.spd x.1)
        ≤ s.totalAV + (x.2 : Rat) / s.spd x.1
      rcases (mem_sortMove s s.order h.1 _ _ _ x).mp hx' with ⟨hne, hm⟩ | ⟨rfl, _⟩
      · rw [if_neg hne]; exact hp x hm
      · have h1 := hp _ hz
        simp only [Int.cast_zero, zero_div, add_zero] at h1
        simp only [if_true, Nat.cast_add, Nat.cast_one, Int.cast_ofNat]
        have : ((c s.active : Rat) + 1) * (10000 / s.spd s.active)
            = (c s.active : Rat) * (10000 / s.spd s.active) + 10000 / s.spd s.active := by ring
        rw [this]
        linarith
    · intro hf
      exact absurd hf (by simp)

/-- arithmetic of `C02_turns_bounded_by_clock` -/
theorem bounded_arith (T sp k : Rat) (g : Int) (hsp : 0 < sp) (hg : g ≤ 10000)
    (h : k * (10000 / sp) ≤ T + (g : Rat) / sp) : (k - 1) * (10000 / sp) ≤ T := by
  have hg' : (g : Rat) ≤ 10000 := by exact_mod_cast hg
  have h1 : (g : Rat) / sp ≤ 10000 / sp := div_le_div_of_nonneg_right hg' (le_of_lt hsp)
  have : (k - 1) * (10000 / sp) = k * (10000 / sp) - 10000 / sp := by ring
  rw [this]
  linarith

end Turn
