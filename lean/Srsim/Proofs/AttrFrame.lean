import Srsim.Proofs.AttrExact
/-! Frame lemmas: what a single attribute operation does to the record of every unit. -/
namespace Attr

theorem find?_after (s : S) (id id' : Int) (f : U → U) (hf : ∀ u, (f u).id = u.id) :
    find? (match find? s id with | some u => setUnit s (f u) | none => s) id' =
      if id' = id then (find? s id).map f else find? s id' := by
  cases h : find? s id with
  | none =>
    simp only
    by_cases e : id' = id
    · subst e; simp [h]
    · simp [e]
  | some u =>
    simp only
    have hid := find?_id h
    have h' : find? s u.id = some u := hid ▸ h
    rw [find?_setUnit' h' (hf u)]
    by_cases e : id' = id
    · subst e; simp [hid]
    · have : ¬ id' = u.id := hid ▸ e
      simp [e, this]

/-- the record `modHP` writes for its target: a dead unit is left alone, any other unit gets
the clamped new ratio (and the attacker / life bookkeeping of `hpUnit`). -/
def modHPUnit (u : U) (src : Int) (amt : Rat) (dmg : Bool) : U :=
  if u.life = .dead then u
  else hpUnit u src u.hpRatio (clamp01 ((u.currentHP + amt) / u.maxHP)) dmg

theorem modHPUnit_id (u : U) (src : Int) (amt : Rat) (dmg : Bool) : (modHPUnit u src amt dmg).id = u.id := by
  unfold modHPUnit; split_ifs
  · rfl
  · exact hpUnit_id _ _ _ _ _
theorem modHPUnit_energy (u : U) (src : Int) (amt : Rat) (dmg : Bool) :
    (modHPUnit u src amt dmg).energy = u.energy := by
  unfold modHPUnit; split_ifs
  · rfl
  · exact hpUnit_energy _ _ _ _ _
theorem modHPUnit_stance (u : U) (src : Int) (amt : Rat) (dmg : Bool) :
    (modHPUnit u src amt dmg).stance = u.stance := by
  unfold modHPUnit; split_ifs
  · rfl
  · exact hpUnit_stance _ _ _ _ _

theorem find?_modHP (s : S) (id src : Int) (amt : Rat) (dmg : Bool) (id' : Int) :
    find? (step s (.modHP id src amt dmg)).1 id' =
      if id' = id then (find? s id).map (fun u => modHPUnit u src amt dmg)
      else find? s id' := by
  simp only [step]
  cases h : find? s id with
  | none =>
    simp only [Option.map_none]
    by_cases e : id' = id
    · subst e; simp [h]
    · simp [e]
  | some u =>
    simp only [Option.map_some]
    have hid := find?_id h
    by_cases hd : u.life = .dead
    · rw [if_pos hd]
      by_cases e : id' = id
      · subst e; simp [h, modHPUnit, hd]
      · simp [e]
    · rw [if_neg hd]
      have h' : find? s u.id = some u := hid ▸ h
      unfold emitHP
      simp only
      rw [find?_setUnit' h' (hpUnit_id u src _ _ dmg)]
      by_cases e : id' = id
      · subst e; simp [hid, modHPUnit, hd]
      · have : ¬ id' = u.id := hid ▸ e
        simp [e, this]

theorem find?_modEnergy (s : S) (id src : Int) (amt : Rat) (id' : Int) :
    find? (step s (.modEnergy id src amt)).1 id' =
      if id' = id then
        (find? s id).map (fun u => { u with energy := clampTo (u.energy + amt * (1 + u.energyRegen)) u.maxEnergy })
      else find? s id' := by
  rw [← find?_after s id id'
    (fun u => { u with energy := clampTo (u.energy + amt * (1 + u.energyRegen)) u.maxEnergy }) (fun u => rfl)]
  simp only [step]
  cases find? s id <;> rfl

theorem find?_modStance (s : S) (id src : Int) (amt : Rat) (id' : Int) :
    find? (step s (.modStance id src amt)).1 id' =
      if id' = id then
        (find? s id).map (fun u =>
          if Num.eqb u.stance (clampTo (u.stance + amt * (1 + stancePctOf s src)) u.maxStance) then u
          else { u with stance := clampTo (u.stance + amt * (1 + stancePctOf s src)) u.maxStance })
      else find? s id' := by
  rw [← find?_after s id id'
    (fun u => if Num.eqb u.stance (clampTo (u.stance + amt * (1 + stancePctOf s src)) u.maxStance) then u
          else { u with stance := clampTo (u.stance + amt * (1 + stancePctOf s src)) u.maxStance })
    (fun u => by split_ifs <;> rfl)]
  simp only [step]
  cases find? s id <;> rfl

theorem hpUnit_static (u : U) (src : Int) (o n : Rat) (dmg : Bool) :
    (hpUnit u src o n dmg).maxStance = u.maxStance ∧ (hpUnit u src o n dmg).maxEnergy = u.maxEnergy ∧
    (hpUnit u src o n dmg).stancePct = u.stancePct ∧ (hpUnit u src o n dmg).regen = u.regen ∧
    (hpUnit u src o n dmg).regenConv = u.regenConv := by
  unfold hpUnit; split_ifs <;> exact ⟨rfl, rfl, rfl, rfl, rfl⟩

theorem modHPUnit_static (u : U) (src : Int) (amt : Rat) (dmg : Bool) :
    (modHPUnit u src amt dmg).maxStance = u.maxStance ∧ (modHPUnit u src amt dmg).maxEnergy = u.maxEnergy ∧
    (modHPUnit u src amt dmg).stancePct = u.stancePct ∧ (modHPUnit u src amt dmg).regen = u.regen ∧
    (modHPUnit u src amt dmg).regenConv = u.regenConv := by
  unfold modHPUnit; split_ifs
  · exact ⟨rfl, rfl, rfl, rfl, rfl⟩
  · exact hpUnit_static _ _ _ _ _

end Attr
