import Srsim.Proofs.SimDeathBase
import Srsim.Proofs.SimProto
/-!
Proof of C08 over whole runs, part 2: what content (programs of engine calls) does to the coupling.
-/
set_option linter.unusedSectionVars false
set_option linter.unusedVariables false
namespace Sim
variable {α : Type} [Num α]
open Proto

/-! ### quiet engine calls -/

theorem lifeOf_of {s : S α} {t : Int} {u : U α} (h : unitOf s t = some u) : lifeOf s t = u.life := by
  simp only [lifeOf, h]

theorem killerOf_of {s : S α} {t : Int} {u : U α} (h : unitOf s t = some u) : killerOf s t = u.lastAtk := by
  simp only [killerOf, h]

theorem setUnit_same (s : S α) (u u' : U α) (t : Int) (hu : unitOf s t = some u) (hid : u'.id = t)
    (hl : u'.life = u.life) (hk : u'.lastAtk = u.lastAtk) : Same s (setUnit s u') := by
  refine ⟨rfl, rfl, rfl, rfl, rfl, ?_, ?_, isSome_setUnit s u u' t hu hid⟩
  · intro id
    rw [lifeOf_setUnit s u u' t hu hid]
    split
    · next h => rw [h, hl, lifeOf_of hu]
    · rfl
  · intro id
    rw [killerOf_setUnit s u u' t hu hid]
    split
    · next h => rw [h, hk, killerOf_of hu]
    · rfl

theorem modUnit_same (s : S α) (id : Int) (f : U α → U α)
    (hf : ∀ x, (f x).id = x.id ∧ (f x).life = x.life ∧ (f x).lastAtk = x.lastAtk) : Same s (modUnit s id f) := by
  have hu := unitOf_modUnit s id f (fun x => (hf x).1)
  refine ⟨rfl, rfl, rfl, rfl, rfl, ?_, ?_, ?_⟩
  · intro t
    unfold lifeOf
    rw [hu]
    cases unitOf s t with
    | none => rfl
    | some u =>
      simp only [Option.map_some]
      split
      · exact (hf u).2.1
      · rfl
  · intro t
    unfold killerOf
    rw [hu]
    cases unitOf s t with
    | none => rfl
    | some u =>
      simp only [Option.map_some]
      split
      · exact (hf u).2.2
      · rfl
  · intro t
    rw [hu]
    cases unitOf s t <;> rfl

theorem modUnit_qt (s : S α) (id : Int) (f : U α → U α)
    (hf : ∀ x, (f x).id = x.id ∧ (f x).life = x.life ∧ (f x).lastAtk = x.lastAtk) : Qt s (modUnit s id f) :=
  Qt.same (modUnit_same s id f hf) rfl

theorem enqueue_qt (s : S α) (src prio : Int) (ab : Bool) (k : TaskKind)
    (hk : TaskOK ⟨src, prio, s.seq, ab, k⟩) : Qt s (enqueue s src prio ab k) := by
  refine Qt.frame rfl rfl rfl rfl rfl (OrdSub.refl _) ?_
  intro hq t ht
  rcases List.mem_append.1 ht with ht | ht
  · exact hq t ht
  · rw [List.mem_singleton.1 ht]; exact hk

theorem setEnergy_qt (s : S α) (t : Int) (a : α) : Qt s (setEnergy s t a) := by
  rcases setEnergy_cases s t a with h | ⟨u, e, hu, h | h⟩ <;> rw [h]
  · exact Qt.refl s
  · exact Qt.same (setUnit_same s u { u with energy := e } t hu (unitOf_id s t u hu) rfl rfl) rfl
  · exact (Qt.same (setUnit_same s u { u with energy := e } t hu (unitOf_id s t u hu) rfl rfl) rfl).emit
      (inert_energy _ _ _)

theorem modifySP_qt (s : S α) (amt : Int) : Qt s (modifySP s amt) := by
  unfold modifySP
  split
  · exact Qt.refl s
  · exact (Qt.same (s := s) (s' := { s with sp := clampSP (s.sp + amt) }) (Same.of_units rfl rfl rfl rfl rfl rfl) rfl).emit
      (inert_sp _ _)

theorem setGauge_qt (s : S α) (t : Int) (amt : α) : Qt s (setGauge s t amt) := by
  unfold setGauge
  simp only []
  refine Qt.trans (s' := { s with turn := (Turn.step s.turn (.setGauge t amt)).1 }) ?_ ?_
  · exact Qt.frame rfl rfl rfl rfl rfl (by simp only [Turn.step]; exact ordSub_setGaugeI _ _ _) (fun h => h)
  · apply Qt.foldl
    intro s e
    split
    · exact (Qt.refl s).emit (inert_gauge _ _ _ _)
    · exact Qt.refl s

theorem insertAction_qt (cfg : Cfg) (s : S α) (t : Int) : Qt s (insertAction cfg s t) := by
  unfold insertAction
  exact enqueue_qt _ _ _ _ _ rfl

theorem collect_qt (cfg : Cfg) (s : S α) (d : Int) (tot : α) : Qt s (collect cfg s d tot) := by
  unfold collect
  simp only []
  split
  · exact Qt.same (Same.of_units rfl rfl rfl rfl rfl rfl) rfl
  · exact Qt.refl s

theorem endAttack_qt (s : S α) : Qt s (endAttack s) := by
  unfold endAttack
  split
  · exact (Qt.same (s := s) (s' := { s with inAttack := none }) (Same.of_units rfl rfl rfl rfl rfl rfl) rfl).emit
      (inert_attackEnd _ _)
  · exact Qt.refl s

theorem energyOnDeath_qt (s : S α) (k : Int) : Qt s (energyOnDeath s k) := by
  unfold energyOnDeath
  split
  · exact setEnergy_qt _ _ _
  · exact Qt.refl s

theorem ultCheck_qt (cfg : Cfg) (s : S α) : Qt s (ultCheck cfg s) := by
  unfold ultCheck
  refine Qt.trans (s' := { s with ultCalls := s.ultCalls + 1 }) ?_ ?_
  · exact Qt.same (Same.of_units rfl rfl rfl rfl rfl rfl) rfl
  · apply Qt.foldl
    intro s a
    split
    · exact Qt.refl s
    · split
      · exact Qt.same (Same.of_units rfl rfl rfl rfl rfl rfl) rfl
      · split
        · exact Qt.refl s
        · split
          · exact (enqueue_qt s a.target 500 true (.ult a) rfl).trans (setEnergy_qt _ _ _)
          · exact Qt.refl s

/-! ### a change of hit points -/

theorem find_filter_ne (l : List (Int × Int)) (t id : Int) (h : id ≠ t) :
    (l.filter (fun x => x.1 != t)).find? (fun x => x.1 == id) = l.find? (fun x => x.1 == id) := by
  induction l with
  | nil => rfl
  | cons x xs ih =>
    by_cases hx : x.1 = t
    · have h1 : (x.1 != t) = false := by simp [hx]
      have h2 : (x.1 == id) = false := by rw [hx]; simpa using fun e => h e.symm
      simp only [List.filter_cons, h1, Bool.false_eq_true, if_false, List.find?_cons, h2]
      exact ih
    · have h1 : (x.1 != t) = true := by simp [hx]
      simp only [List.filter_cons, h1, if_true, List.find?_cons, ih]

/-- the predicate's record of the last damaging hit -/
def dmgUpd (d : DSt) (t src : Int) (dmg : Bool) : DSt :=
  if dmg then { d with lastDmg := (t, src) :: d.lastDmg.filter (fun x => x.1 != t) } else d

theorem dmgUpd_dead (d : DSt) (t src : Int) (dmg : Bool) : (dmgUpd d t src dmg).dead = d.dead := by
  cases dmg <;> rfl
theorem dmgUpd_pending (d : DSt) (t src : Int) (dmg : Bool) : (dmgUpd d t src dmg).pending = d.pending := by
  cases dmg <;> rfl
theorem dmgUpd_limbo (d : DSt) (t src : Int) (dmg : Bool) : (dmgUpd d t src dmg).limbo = d.limbo := by
  cases dmg <;> rfl

theorem lastDamager_dmgUpd (d : DSt) (t src : Int) (dmg : Bool) (id : Int) :
    lastDamager (dmgUpd d t src dmg) id =
      if id = t then (if dmg = true then src else lastDamager d t) else lastDamager d id := by
  cases dmg with
  | false =>
    simp only [dmgUpd, Bool.false_eq_true, if_false]
    split
    · next h => rw [h]
    · rfl
  | true =>
    simp only [dmgUpd, if_true, lastDamager]
    by_cases h : id = t
    · subst h
      simp
    · rw [if_neg h, List.find?_cons]
      have : ((t, src).1 == id) = false := by simpa using fun e => h e.symm
      rw [this, find_filter_ne _ _ _ h]

theorem deathStep_hpChange (d : DSt) (t : Int) (o n : α) (dmg : Bool) (src : Int)
    (hc : dmg = true → d.curHit = some (src, t)) :
    deathStep d (.hpChange t o n dmg) =
      .ok (if (0 : α) < n then { dmgUpd d t src dmg with limbo := (dmgUpd d t src dmg).limbo.filter (· != t) }
           else dmgUpd d t src dmg) := by
  cases dmg with
  | false =>
    simp only [deathStep, dmgUpd, Bool.false_eq_true, if_false]
    split <;> rfl
  | true =>
    have := hc rfl
    simp only [deathStep, dmgUpd, this, if_true, beq_self_eq_true]
    split <;> rfl

theorem deathStep_limbo (d : DSt) (t : Int) (held : Bool) :
    deathStep (α := α) d (.limbo t held) =
      .ok (if d.dead.contains t then d
           else if held then { d with limbo := t :: d.limbo.filter (· != t) }
           else { d with pending := t :: d.pending.filter (· != t), limbo := d.limbo.filter (· != t) }) := by
  simp only [deathStep]
  split
  · rfl
  · split <;> rfl

/-- the coupling after the record of a unit that is not dead for good was replaced -/
theorem InvF.upd {F : Int → Prop} {p : Prop} {s : S α} {d : DSt} (h : InvF F p s d) {t : Int} {u u' : U α}
    (hu : unitOf s t = some u) (hl1 : u.life ≠ 1) (hid : u'.id = t) (hL : u'.life ≤ 2) (d' : DSt)
    (hd : d'.dead = d.dead)
    (hp : ∀ id, id ∈ d'.pending ↔ (id ≠ t ∧ id ∈ d.pending) ∨ (id = t ∧ F t ∧ u'.life = 1))
    (hl : ∀ id, id ∈ d'.limbo ↔ (id ≠ t ∧ id ∈ d.limbo) ∨ (id = t ∧ F t ∧ u'.life = 2))
    (hk : ∀ id, lastDamager d' id = if id = t then u'.lastAtk else lastDamager d id) :
    InvF F p (setUnit s u') d' where
  deadOff := by rw [hd]; exact h.deadOff
  life := fun id hf => by
    rw [lifeOf_setUnit s u u' t hu hid]
    split
    · exact hL
    · exact h.life id hf
  pend := fun id => by
    rw [hp, lifeOf_setUnit s u u' t hu hid]
    by_cases he : id = t
    · subst he; simp
    · simp only [he, ne_eq, not_false_eq_true, true_and, false_and, or_false, if_false]
      exact h.pend id
  limb := fun id => by
    rw [hl, lifeOf_setUnit s u u' t hu hid]
    by_cases he : id = t
    · subst he; simp
    · simp only [he, ne_eq, not_false_eq_true, true_and, false_and, or_false, if_false]
      exact h.limb id
  killer := fun id => by
    rw [hk, killerOf_setUnit s u u' t hu hid]
    split
    · rfl
    · exact h.killer id
  units := fun id hs => by
    rw [isSome_setUnit s u u' t hu hid] at hs
    rw [hd]; exact h.units id hs
  order := h.order
  ordNodup := h.ordNodup
  queue := h.queue
  act := fun hp' hdd => by
    rw [hd] at hdd
    have h1 : lifeOf s s.active = 1 := h.act hp' hdd
    show lifeOf (setUnit s u') s.active = 1
    rw [lifeOf_setUnit s u u' t hu hid]
    split
    · next he =>
      rw [he, lifeOf_of hu] at h1
      exact absurd h1 hl1
    · exact h1

theorem mem_keep {l : List Int} {t : Int} {Q : Prop} (hnt : t ∉ l) (hq : ¬ Q) (id : Int) :
    id ∈ l ↔ (id ≠ t ∧ id ∈ l) ∨ (id = t ∧ Q) := by
  constructor
  · intro h
    exact Or.inl ⟨fun e => hnt (e ▸ h), h⟩
  · rintro (⟨_, h⟩ | ⟨_, h⟩)
    · exact h
    · exact absurd h hq

theorem mem_drop {l : List Int} {t : Int} {Q : Prop} (hq : ¬ Q) (id : Int) :
    id ∈ l.filter (· != t) ↔ (id ≠ t ∧ id ∈ l) ∨ (id = t ∧ Q) := by
  simp only [List.mem_filter, bne_iff_ne, ne_eq]
  constructor
  · rintro ⟨h1, h2⟩
    exact Or.inl ⟨h2, h1⟩
  · rintro (⟨h1, h2⟩ | ⟨_, h⟩)
    · exact ⟨h2, h1⟩
    · exact absurd h hq

theorem mem_put {l : List Int} {t : Int} {Q : Prop} (hq : Q) (id : Int) :
    id ∈ t :: l.filter (· != t) ↔ (id ≠ t ∧ id ∈ l) ∨ (id = t ∧ Q) := by
  simp only [List.mem_cons, List.mem_filter, bne_iff_ne, ne_eq]
  constructor
  · rintro (h | ⟨h1, h2⟩)
    · exact Or.inr ⟨h, hq⟩
    · exact Or.inl ⟨h2, h1⟩
  · rintro (⟨h1, h2⟩ | ⟨h, _⟩)
    · exact Or.inr ⟨h2, h1⟩
    · exact Or.inl h

theorem Inv.upd {p : Prop} {s : S α} {d : DSt} (h : Inv p s d) {t : Int} {u u' : U α}
    (hu : unitOf s t = some u) (hl1 : u.life ≠ 1) (hid : u'.id = t) (hL : u'.life ≤ 2) (d' : DSt)
    (hd : d'.dead = d.dead)
    (hp : ∀ id, id ∈ d'.pending ↔ (id ≠ t ∧ id ∈ d.pending) ∨ (id = t ∧ onField s t ∧ u'.life = 1))
    (hl : ∀ id, id ∈ d'.limbo ↔ (id ≠ t ∧ id ∈ d.limbo) ∨ (id = t ∧ onField s t ∧ u'.life = 2))
    (hk : ∀ id, lastDamager d' id = if id = t then u'.lastAtk else lastDamager d id) :
    Inv p (setUnit s u') d' :=
  ⟨h.nodup, h.inv.upd hu hl1 hid hL d' hd hp hl hk⟩

theorem Inv.emit {p : Prop} {s : S α} {d : DSt} {e : Ev α} (h : Inv p s d) : Inv p (emit s e) d :=
  h.same (Same.of_units rfl rfl rfl rfl rfl rfl)

theorem hpSet_st (s : S α) (t : Int) (newR : α) (src : Int) (dmg : Bool) (p : Prop) (d : DSt)
    (h : St p s d) (hc : dmg = true → d.curHit = some (src, t)) :
    ∃ d', St p (hpSet s t newR src dmg) d' := by
  unfold hpSet
  cases hu : unitOf s t with
  | none => exact ⟨d, h⟩
  | some u =>
    simp only
    by_cases h1 : (u.life == 1) = true
    · rw [if_pos h1]; exact ⟨d, h⟩
    rw [if_neg h1]
    by_cases h2 : Num.eqb u.ratio newR = true
    · rw [if_pos h2]; exact ⟨d, h⟩
    rw [if_neg h2]
    have hl1 : u.life ≠ 1 := by simpa using h1
    have hid := unitOf_id s t u hu
    have hI := h.inv.inv
    have htp : t ∉ d.pending := fun hm => hl1 (by rw [← lifeOf_of hu]; exact ((hI.pend t).1 hm).2)
    have hFd : onField s t ↔ t ∉ d.dead := by
      constructor
      · exact fun hf hm => hI.deadOff t hm hf
      · intro hm
        rcases hI.units t (by rw [hu]; rfl) with hf | hf
        · exact hf
        · exact absurd hf hm
    generalize hD : dmgUpd d t src dmg = D
    have hDd : D.dead = d.dead := by rw [← hD]; exact dmgUpd_dead _ _ _ _
    have hDp : D.pending = d.pending := by rw [← hD]; exact dmgUpd_pending _ _ _ _
    have hDl : D.limbo = d.limbo := by rw [← hD]; exact dmgUpd_limbo _ _ _ _
    have key : ∀ (L : Nat) (hL : L ≤ 2) (d' : DSt), d'.dead = d.dead → d'.lastDmg = D.lastDmg →
        (∀ id, id ∈ d'.pending ↔ (id ≠ t ∧ id ∈ d.pending) ∨ (id = t ∧ onField s t ∧ L = 1)) →
        (∀ id, id ∈ d'.limbo ↔ (id ≠ t ∧ id ∈ d.limbo) ∨ (id = t ∧ onField s t ∧ L = 2)) →
        Inv p (setUnit s { u with ratio := newR, lastAtk := if dmg = true then src else u.lastAtk, life := L }) d' := by
      intro L hL d' hd hk hp hl
      refine h.inv.upd (u' := { u with ratio := newR, lastAtk := if dmg = true then src else u.lastAtk, life := L })
        hu hl1 hid hL d' hd hp hl ?_
      intro id
      have : lastDamager d' id = lastDamager (dmgUpd d t src dmg) id := by simp only [lastDamager, hk, hD]
      rw [this, lastDamager_dmgUpd, hI.killer t, killerOf_of hu]
    have r0 : ∀ u' : U α, dst (emit (setUnit s u') (.hpChange t u.ratio newR dmg)) =
        .ok (if (0 : α) < newR then { D with limbo := D.limbo.filter (· != t) } else D) := by
      intro u'
      rw [dst_emit _ (show dst (setUnit s u') = .ok d from h.run), deathStep_hpChange d t _ _ dmg src hc, hD]
    have hqueue : ∀ (q : List Task) (n : Nat) (pr : Int), q = s.queue →
        ∀ x ∈ q ++ [(⟨t, pr, n, false, .revive t⟩ : Task)], TaskOK x := by
      intro q n pr hs1 x hx
      rcases List.mem_append.1 hx with hx | hx
      · rw [hs1] at hx; exact hI.queue x hx
      · rw [List.mem_singleton.1 hx]; rfl
    by_cases h3 : (0 : α) < newR
    · rw [if_pos h3]
      rw [if_pos h3] at r0
      refine ⟨{ D with limbo := D.limbo.filter (· != t) }, ⟨r0 _, ?_⟩⟩
      refine Inv.emit (key 0 (by decide) _ hDd rfl ?_ ?_)
      · intro id
        rw [hDp]
        exact mem_keep htp (by simp) id
      · intro id
        show id ∈ D.limbo.filter (· != t) ↔ _
        rw [hDl]
        exact mem_drop (by simp) id
    rw [if_neg h3]
    rw [if_neg h3] at r0
    by_cases hdead : t ∈ d.dead
    · -- not on the field any more: the predicate ignores it
      have hnf : ¬ onField s t := fun hf => hFd.1 hf hdead
      have htl : t ∉ d.limbo := fun hm => hnf ((hI.limb t).1 hm).1
      have hcont : D.dead.contains t = true := by
        rw [hDd]; simpa using hdead
      by_cases h4 : u.revive = true
      · rw [if_pos h4]
        refine ⟨D, ⟨?_, ?_⟩⟩
        · rw [dst_emit _ (show dst (enqueue (emit (setUnit s _) _) t u.rprio false (.revive t)) = .ok _ from r0 _),
            deathStep_limbo, if_pos hcont]
        · refine Inv.frame (s := setUnit s _) (key 2 (by decide) D hDd rfl ?_ ?_) rfl rfl rfl rfl (OrdSub.refl _) (hqueue _ _ _ rfl)
          · intro id
            rw [hDp]
            exact mem_keep htp (fun hq => hnf hq.1) id
          · intro id
            rw [hDl]
            exact mem_keep htl (fun hq => hnf hq.1) id
      · rw [if_neg h4]
        refine ⟨D, ⟨?_, ?_⟩⟩
        · rw [dst_emit _ (r0 _), deathStep_limbo, if_pos hcont]
        · refine Inv.emit (Inv.emit (key 1 (by decide) D hDd rfl ?_ ?_))
          · intro id
            rw [hDp]
            exact mem_keep htp (fun hq => hnf hq.1) id
          · intro id
            rw [hDl]
            exact mem_keep htl (fun hq => hnf hq.1) id
    · have hf : onField s t := hFd.2 hdead
      have hcont : ¬ (D.dead.contains t = true) := by
        rw [hDd]; simpa using hdead
      by_cases h4 : u.revive = true
      · rw [if_pos h4]
        refine ⟨{ D with limbo := t :: D.limbo.filter (· != t) }, ⟨?_, ?_⟩⟩
        · rw [dst_emit _ (show dst (enqueue (emit (setUnit s _) _) t u.rprio false (.revive t)) = .ok _ from r0 _),
            deathStep_limbo, if_neg hcont, if_pos rfl]
        · refine Inv.frame (s := setUnit s _) (key 2 (by decide) _ hDd rfl ?_ ?_) rfl rfl rfl rfl (OrdSub.refl _) (hqueue _ _ _ rfl)
          · intro id
            show id ∈ D.pending ↔ _
            rw [hDp]
            exact mem_keep htp (by simp) id
          · intro id
            show id ∈ t :: D.limbo.filter (· != t) ↔ _
            rw [hDl]
            exact mem_put ⟨hf, rfl⟩ id
      · rw [if_neg h4]
        refine ⟨{ D with pending := t :: D.pending.filter (· != t), limbo := D.limbo.filter (· != t) }, ⟨?_, ?_⟩⟩
        · rw [dst_emit _ (r0 _), deathStep_limbo, if_neg hcont, if_neg (by simp)]
        · refine Inv.emit (Inv.emit (key 1 (by decide) _ hDd rfl ?_ ?_))
          · intro id
            show id ∈ t :: D.pending.filter (· != t) ↔ _
            rw [hDp]
            exact mem_put ⟨hf, rfl⟩ id
          · intro id
            show id ∈ D.limbo.filter (· != t) ↔ _
            rw [hDl]
            exact mem_drop (by simp) id

/-! ### content -/

theorem hpSet_tr (s : S α) (t : Int) (r : α) (src : Int) : Tr s (hpSet s t r src false) :=
  ⟨(hpSet_quiet s t r src false).active, fun p d h => hpSet_st s t r src false p d h (fun e => by cases e)⟩

theorem St.dcongr {p : Prop} {s : S α} {d d' : DSt} (h : Inv p s d) (hr : dst s = .ok d')
    (h1 : d'.dead = d.dead) (h2 : d'.pending = d.pending) (h3 : d'.limbo = d.limbo) (h4 : d'.lastDmg = d.lastDmg) :
    St p s d' := ⟨hr, h.dcongr h1 h2 h3 h4⟩

theorem hit_tr (cfg : Cfg) (s : S α) (src tgt : Int) : Tr s (hit cfg s src tgt) := by
  refine ⟨(hit_flowK cfg s src tgt).1.active, ?_⟩
  intro p d h
  unfold hit
  simp only []
  have h0 : St p (emit { s with hitN := s.hitN + 1 } (.hitStart src tgt)) { d with curHit := some (src, tgt) } := by
    refine St.dcongr (d := d) ?_ ?_ rfl rfl rfl rfl
    · exact (h.inv.same (Same.of_units rfl rfl rfl rfl rfl rfl))
    · rw [dst_emit _ (show dst { s with hitN := s.hitN + 1 } = .ok d from h.run)]; rfl
  obtain ⟨d1, h1⟩ := hpSet_st _ tgt (s.hitO s.hitN).2 src true p _ h0 (fun _ => rfl)
  have h2 := (collect_qt cfg _ tgt (s.hitO s.hitN).1).st p d1 h1
  refine ⟨{ d1 with curHit := none }, St.dcongr (d := d1) h2.inv.emit ?_ rfl rfl rfl rfl⟩
  rw [dst_emit _ h2.run]; rfl

theorem counters_tr (cfg : Cfg) (s : S α) (src : Int) (tg : List Int) : Tr s (counters cfg s src tg) := by
  unfold counters
  refine Tr.foldl _ (fun s t => ?_) _ _
  split
  · exact hit_tr cfg s t src
  · exact Tr.refl s

theorem attack_tr (cfg : Cfg) (s : S α) (src : Int) (tg : List Int) (ty : Nat) : Tr s (attack cfg s src tg ty) := by
  unfold attack
  split
  · exact Tr.refl s
  · simp only []
    refine Tr.trans (s' := if s.inAttack.isNone && qualified ty then
        emit { counters cfg s src tg with inAttack := some (src, ty) } (.attackStart src ty) else s) ?_
      (Tr.foldl _ (fun s t => hit_tr cfg s src t) _ _)
    split
    · exact (counters_tr cfg s src tg).trans
        (((Qt.same (s := counters cfg s src tg) (s' := { counters cfg s src tg with inAttack := some (src, ty) })
          (Same.of_units rfl rfl rfl rfl rfl rfl) rfl).emit (inert_attackStart _ _)).tr)
    · exact Tr.refl s

theorem hpPrim_tr (s : S α) (t src : Int) : Tr s (hpPrim s t src) := by
  unfold hpPrim
  exact ((Qt.same (s := s) (s' := { s with markN := s.markN + 1 }) (Same.of_units rfl rfl rfl rfl rfl rfl) rfl).tr.trans
    (hpSet_tr _ _ _ _)).emit (inert_mark _ _)

theorem heal_tr (s : S α) (src t : Int) : Tr s (heal s src t) := by
  unfold heal
  simp only []
  split
  · exact (((((Qt.same (s := s) (s' := { s with markN := s.markN + 1 }) (Same.of_units rfl rfl rfl rfl rfl rfl) rfl).emit
      (inert_healStart _ _)).tr.trans (hpSet_tr _ _ _ _)).emit (inert_healEnd _ _)).emit (inert_mark _ _))
  · exact ((Qt.same (s := s) (s' := { s with markN := s.markN + 1 }) (Same.of_units rfl rfl rfl rfl rfl rfl) rfl).emit
      (inert_mark _ _)).tr

theorem addMod_ok (k src : Int) (x : U α) :
    (addMod x k src).id = x.id ∧ (addMod x k src).life = x.life ∧ (addMod x k src).lastAtk = x.lastAtk := by
  unfold addMod
  split
  · split <;> exact ⟨rfl, rfl, rfl⟩
  split
  · split <;> exact ⟨rfl, rfl, rfl⟩
  split
  · split <;> exact ⟨rfl, rfl, rfl⟩
  split
  · split <;> exact ⟨rfl, rfl, rfl⟩
  split
  · exact ⟨rfl, rfl, rfl⟩
  split
  · exact ⟨rfl, rfl, rfl⟩
  split
  · exact ⟨rfl, rfl, rfl⟩
  split <;> exact ⟨rfl, rfl, rfl⟩

theorem rmMod_ok (k : Int) (x : U α) :
    (rmMod x k).id = x.id ∧ (rmMod x k).life = x.life ∧ (rmMod x k).lastAtk = x.lastAtk := by
  unfold rmMod
  split
  · split <;> exact ⟨rfl, rfl, rfl⟩
  split
  · split <;> exact ⟨rfl, rfl, rfl⟩
  split
  · split <;> exact ⟨rfl, rfl, rfl⟩
  split
  · split <;> exact ⟨rfl, rfl, rfl⟩
  split
  · exact ⟨rfl, rfl, rfl⟩
  split
  · exact ⟨rfl, rfl, rfl⟩
  split
  · exact ⟨rfl, rfl, rfl⟩
  split <;> exact ⟨rfl, rfl, rfl⟩

theorem runCmd_tr (cfg : Cfg) (s : S α) (c : Cmd) (src pt : Int) : Tr s (runCmd cfg s c src pt) := by
  unfold runCmd
  split
  · exact Tr.foldl _ (fun s _ => attack_tr cfg s src _ _) _ _
  split
  · exact (endAttack_qt s).tr
  split
  · exact Tr.foldl _ (fun s t => heal_tr s src t) _ _
  split
  · exact Tr.foldl _ (fun s t => hpPrim_tr s t src) _ _
  split
  · exact (enqueue_qt s src c.b (c.c != 0) (.ability c.a.toNat pt) trivial).tr
  split
  · exact (Qt.foldl _ (fun s t => insertAction_qt cfg s t) _ _).tr
  split
  · exact (Qt.foldl _ (fun s t => setGauge_qt s t _) _ _).tr
  split
  · refine (Qt.foldl _ ?_ _ _).tr
    intro s t
    split
    · exact setEnergy_qt _ _ _
    · exact Qt.refl s
  split
  · exact (Qt.foldl _ (fun s t => modUnit_qt s t _ (addMod_ok _ _)) _ _).tr
  split
  · exact (Qt.foldl _ (fun s t => modUnit_qt s t _ (rmMod_ok _)) _ _).tr
  split
  · exact (modifySP_qt _ _).tr
  · exact Tr.refl s

theorem runProg_tr (cfg : Cfg) (s : S α) (p : Nat) (src pt : Int) : Tr s (runProg cfg s p src pt) := by
  unfold runProg
  exact Tr.foldl _ (fun s c => runCmd_tr cfg s c src pt) _ _

/-- a program that changes no hit points -/
theorem runCmds_qt (cfg : Cfg) (l : List Cmd) (s : S α) (src pt : Int)
    (hq : ∀ c ∈ l, c.op ≠ 'A' ∧ c.op ≠ 'H' ∧ c.op ≠ 'C') :
    Qt s (l.foldl (fun s c => runCmd cfg s c src pt) s) := by
  induction l generalizing s with
  | nil => exact Qt.refl s
  | cons c cs ih =>
    refine Qt.trans (s' := runCmd cfg s c src pt) ?_ (ih _ (fun c hc => hq c (List.mem_cons_of_mem _ hc)))
    obtain ⟨hA, hH, hC⟩ := hq c (List.mem_cons_self ..)
    unfold runCmd
    rw [if_neg (by simpa using hA)]
    split
    · exact endAttack_qt s
    rw [if_neg (by simpa using hH), if_neg (by simpa using hC)]
    split
    · exact enqueue_qt s src c.b (c.c != 0) (.ability c.a.toNat pt) trivial
    split
    · exact Qt.foldl _ (fun s t => insertAction_qt cfg s t) _ _
    split
    · exact Qt.foldl _ (fun s t => setGauge_qt s t _) _ _
    split
    · refine Qt.foldl _ ?_ _ _
      intro s t
      split
      · exact setEnergy_qt _ _ _
      · exact Qt.refl s
    split
    · exact Qt.foldl _ (fun s t => modUnit_qt s t _ (addMod_ok _ _)) _ _
    split
    · exact Qt.foldl _ (fun s t => modUnit_qt s t _ (rmMod_ok _)) _ _
    split
    · exact modifySP_qt _ _
    · exact Qt.refl s

theorem tickPhase1_tr (cfg : Cfg) (s : S α) : Tr s (tickPhase1 cfg s) := by
  unfold tickPhase1
  split
  · split
    · exact attack_tr cfg s _ _ 4
    · exact Tr.refl s
  · exact Tr.refl s

theorem tickPhase2_tr (s : S α) : Tr s (tickPhase2 s) := by
  unfold tickPhase2
  split
  · split
    · exact hpPrim_tr _ _ _
    · exact Tr.refl s
  · exact Tr.refl s

end Sim
