import Srsim.Proofs.SimLemmas
/-
Frame reasoning for the battle-driver model.

A relation `R` between a state and a later state is *good* when it is transitive, holds for
every update that leaves `evs`, `dealt`, `taken` (and `calls`) alone, holds for the emission of
every "plain" event, and holds for the atomic step `collect` + `hitEnd`.  Every good relation then
holds between `s` and `f s` for every model function `f` below the action level (`Good`), and —
when plain means just "not a `hitEnd`" and `calls` may change — for the whole driver (`GoodU`).

Core Lean only.
-/
namespace Sim
set_option linter.unusedSectionVars false
variable {α : Type} [Num α]

def isAS : Ev α → Bool
  | .actionStart _ _ _ => true
  | _ => false

def isHE : Ev α → Bool
  | .hitEnd _ _ _ _ => true
  | _ => false

def plain (e : Ev α) : Bool := !isAS e && !isHE e

structure Good (cfg : Cfg) (R : S α → S α → Prop) : Prop where
  trans : ∀ {a b c : S α}, R a b → R b c → R a c
  silent : ∀ {s s' : S α}, s'.evs = s.evs → s'.dealt = s.dealt → s'.taken = s.taken → s'.calls = s.calls → R s s'
  emit : ∀ (s : S α) (e : Ev α), plain e = true → R s (emit s e)
  hitEnd : ∀ (s : S α) (a d : Int) (x y : α), R s (Sim.emit (collect cfg s d x) (.hitEnd a d x y))

structure GoodU (cfg : Cfg) (R : S α → S α → Prop) : Prop where
  trans : ∀ {a b c : S α}, R a b → R b c → R a c
  silent : ∀ {s s' : S α}, s'.evs = s.evs → s'.dealt = s.dealt → s'.taken = s.taken → R s s'
  emit : ∀ (s : S α) (e : Ev α), isHE e = false → R s (emit s e)
  hitEnd : ∀ (s : S α) (a d : Int) (x y : α), R s (Sim.emit (collect cfg s d x) (.hitEnd a d x y))

theorem plain_notHE (e : Ev α) (h : plain e = true) : isHE e = false := by
  unfold plain at h
  cases hh : isHE e
  · rfl
  · rw [hh] at h; simp at h

theorem GoodU.toGood {cfg : Cfg} {R : S α → S α → Prop} (G : GoodU cfg R) : Good cfg R where
  trans := G.trans
  silent := fun h1 h2 h3 _ => G.silent h1 h2 h3
  emit := fun s e h => G.emit s e (plain_notHE e h)
  hitEnd := G.hitEnd

section lower
variable {cfg : Cfg} {R : S α → S α → Prop}

theorem Good.refl (G : Good cfg R) (s : S α) : R s s := G.silent (by rfl) (by rfl) (by rfl) (by rfl)

/-- continue with a plain event -/
theorem Good.thenEmit (G : Good cfg R) {a b : S α} (h : R a b) (e : Ev α) (he : plain e = true) :
    R a (Sim.emit b e) := G.trans h (G.emit b e he)

/-- continue with a silent update -/
theorem Good.thenSilent (G : Good cfg R) {a b b' : S α} (h : R a b)
    (h1 : b'.evs = b.evs) (h2 : b'.dealt = b.dealt) (h3 : b'.taken = b.taken) (h4 : b'.calls = b.calls) :
    R a b' := G.trans h (G.silent h1 h2 h3 h4)

theorem Good.ite (_G : Good cfg R) {c : Prop} [Decidable c] {s x y : S α} (hx : R s x) (hy : R s y) :
    R s (if c then x else y) := by
  split
  · exact hx
  · exact hy

theorem Good.enqueue (G : Good cfg R) (s : S α) (a b : Int) (c : Bool) (k : TaskKind) :
    R s (enqueue s a b c k) := G.silent (by rfl) (by rfl) (by rfl) (by rfl)

theorem Good.modUnit (G : Good cfg R) (s : S α) (id : Int) (f : U α → U α) :
    R s (modUnit s id f) := G.silent (by rfl) (by rfl) (by rfl) (by rfl)

theorem Good.foldl (G : Good cfg R) {β : Type} (f : S α → β → S α) (h : ∀ s x, R s (f s x))
    (l : List β) (s : S α) : R s (l.foldl f s) := by
  induction l generalizing s with
  | nil => exact G.refl s
  | cons x xs ih => exact G.trans (h s x) (ih (f s x))

theorem Good.hpSet (G : Good cfg R) (s : S α) (t : Int) (r : α) (src : Int) (d : Bool) :
    R s (hpSet s t r src d) := by
  unfold Sim.hpSet
  split
  · exact G.refl s
  · split
    · exact G.refl s
    · split
      · exact G.refl s
      · split
        · exact G.thenEmit (G.silent (by rfl) (by rfl) (by rfl) (by rfl)) _ (by rfl)
        · split
          · exact G.trans (G.trans (G.thenEmit (G.silent (by rfl) (by rfl) (by rfl) (by rfl)) _ (by rfl)) (G.enqueue _ _ _ _ _)) (G.emit _ _ (by rfl))
          · exact G.thenEmit (G.thenEmit (G.silent (by rfl) (by rfl) (by rfl) (by rfl)) _ (by rfl)) _ (by rfl)

theorem Good.hit (G : Good cfg R) (s : S α) (src tgt : Int) : R s (hit cfg s src tgt) := by
  unfold Sim.hit
  dsimp only
  exact G.trans (G.trans (G.thenEmit (G.silent (by rfl) (by rfl) (by rfl) (by rfl)) _ (by rfl)) (G.hpSet _ _ _ _ _)) (G.hitEnd _ _ _ _ _)

theorem Good.counters (G : Good cfg R) (s : S α) (src : Int) (ts : List Int) : R s (counters cfg s src ts) := by
  unfold Sim.counters
  refine G.foldl _ (fun s t => ?_) _ _
  split
  · exact G.hit s t src
  · exact G.refl s

theorem Good.attack (G : Good cfg R) (s : S α) (src : Int) (ts : List Int) (ty : Nat) :
    R s (attack cfg s src ts ty) := by
  unfold Sim.attack
  split
  · exact G.refl s
  · refine G.trans ?_ (G.foldl _ (fun s t => G.hit s src t) _ _)
    split
    · exact G.trans (G.counters s src ts) (G.thenEmit (G.silent (by rfl) (by rfl) (by rfl) (by rfl)) _ (by rfl))
    · exact G.refl s

theorem Good.endAttack (G : Good cfg R) (s : S α) : R s (endAttack s) := by
  unfold Sim.endAttack
  split
  · exact G.thenEmit (G.silent (by rfl) (by rfl) (by rfl) (by rfl)) _ (by rfl)
  · exact G.refl s

theorem Good.hpPrim (G : Good cfg R) (s : S α) (t src : Int) : R s (hpPrim s t src) := by
  unfold Sim.hpPrim
  exact G.thenEmit (G.trans (G.silent (by rfl) (by rfl) (by rfl) (by rfl)) (G.hpSet _ _ _ _ _)) _ (by rfl)

theorem Good.heal (G : Good cfg R) (s : S α) (src t : Int) : R s (heal s src t) := by
  unfold Sim.heal
  simp only
  split
  · exact G.thenEmit (G.thenEmit (G.trans (G.thenEmit (G.silent (by rfl) (by rfl) (by rfl) (by rfl)) _ (by rfl)) (G.hpSet _ _ _ _ _)) _ (by rfl)) _ (by rfl)
  · exact G.thenEmit (G.silent (by rfl) (by rfl) (by rfl) (by rfl)) _ (by rfl)

theorem Good.modifySP (G : Good cfg R) (s : S α) (amt : Int) : R s (modifySP s amt) := by
  unfold Sim.modifySP
  split
  · exact G.refl s
  · exact G.thenEmit (G.silent (by rfl) (by rfl) (by rfl) (by rfl)) _ (by rfl)

theorem Good.setEnergy (G : Good cfg R) (s : S α) (t : Int) (a : α) : R s (setEnergy s t a) := by
  rcases setEnergy_cases s t a with h | ⟨u, e, _, h | h⟩ <;> rw [h]
  · exact G.refl s
  · exact G.silent (by rfl) (by rfl) (by rfl) (by rfl)
  · exact G.thenEmit (G.silent (by rfl) (by rfl) (by rfl) (by rfl)) _ (by rfl)

theorem Good.setGauge (G : Good cfg R) (s : S α) (t : Int) (a : α) : R s (setGauge s t a) := by
  unfold Sim.setGauge
  dsimp only
  refine G.trans (G.silent (by rfl) (by rfl) (by rfl) (by rfl)) (G.foldl _ ?_ _ _)
  intro s e
  split
  · exact G.emit _ _ (by rfl)
  · exact G.refl s

theorem Good.insertAction (G : Good cfg R) (s : S α) (t : Int) : R s (insertAction cfg s t) :=
  G.silent (by rfl) (by rfl) (by rfl) (by rfl)

theorem Good.runCmd (G : Good cfg R) (s : S α) (c : Cmd) (src pt : Int) : R s (runCmd cfg s c src pt) := by
  unfold Sim.runCmd
  split
  · exact G.foldl _ (fun s _ => G.attack s _ _ _) _ _
  split
  · exact G.endAttack s
  split
  · exact G.foldl _ (fun s t => G.heal s src t) _ _
  split
  · exact G.foldl _ (fun s t => G.hpPrim s t src) _ _
  split
  · exact G.silent (by rfl) (by rfl) (by rfl) (by rfl)
  split
  · exact G.foldl _ (fun s t => G.insertAction s t) _ _
  split
  · exact G.foldl _ (fun s t => G.setGauge s t _) _ _
  split
  · refine G.foldl _ ?_ _ _
    intro s t
    split
    · exact G.setEnergy _ _ _
    · exact G.refl s
  split
  · exact G.foldl _ (fun s t => G.silent (by rfl) (by rfl) (by rfl) (by rfl)) _ _
  split
  · exact G.foldl _ (fun s t => G.silent (by rfl) (by rfl) (by rfl) (by rfl)) _ _
  split
  · exact G.modifySP s _
  · exact G.refl s

theorem Good.runProg (G : Good cfg R) (s : S α) (p : Nat) (src pt : Int) : R s (runProg cfg s p src pt) := by
  unfold Sim.runProg
  exact G.foldl _ (fun s c => G.runCmd s c src pt) _ _

theorem Good.energyOnDeath (G : Good cfg R) (s : S α) (k : Int) : R s (energyOnDeath s k) := by
  unfold Sim.energyOnDeath
  split
  · exact G.setEnergy _ _ _
  · exact G.refl s

theorem Good.dstep (G : Good cfg R) (s : S α) (t : Int) : R s (dstep s t) := by
  unfold Sim.dstep
  exact G.thenEmit (G.trans (G.silent (by rfl) (by rfl) (by rfl) (by rfl)) (G.energyOnDeath _ _)) _ (by rfl)

theorem Good.deathCheck (G : Good cfg R) (s : S α) (b : Bool) : R s (deathCheck s b) := by
  rw [deathCheck_eq]
  exact G.trans (G.silent (by rfl) (by rfl) (by rfl) (by rfl)) (G.foldl _ G.dstep _ _)

theorem Good.exitCheck (G : Good cfg R) (s : S α) : R s (exitCheck cfg s) := by
  unfold Sim.exitCheck
  split
  · next r _ =>
    exact G.trans (G.emit s (.termination r s.turn.totalAV) (by rfl)) (G.silent (by rfl) (by rfl) (by rfl) (by rfl))
  · exact G.refl s

theorem Good.ultCheck (G : Good cfg R) (s : S α) : R s (ultCheck cfg s) := by
  unfold Sim.ultCheck
  refine G.trans (G.silent (by rfl) (by rfl) (by rfl) (by rfl)) (G.foldl _ ?_ _ _)
  intro s a
  split
  · exact G.refl s
  split
  · exact G.silent (by rfl) (by rfl) (by rfl) (by rfl)
  split
  · exact G.refl s
  split
  · exact G.trans (G.silent (by rfl) (by rfl) (by rfl) (by rfl)) (G.setEnergy _ _ _)
  · exact G.refl s

theorem Good.tickPhase1 (G : Good cfg R) (s : S α) : R s (tickPhase1 cfg s) := by
  unfold Sim.tickPhase1
  split
  · split
    · exact G.attack _ _ _ _
    · exact G.refl s
  · exact G.refl s

theorem Good.tickPhase2 (G : Good cfg R) (s : S α) : R s (tickPhase2 s) := by
  unfold Sim.tickPhase2
  split
  · split
    · exact G.hpPrim _ _ _
    · exact G.refl s
  · exact G.refl s

end lower

section upper
variable {cfg : Cfg} {R : S α → S α → Prop}

theorem GoodU.refl (G : GoodU cfg R) (s : S α) : R s s := G.silent (by rfl) (by rfl) (by rfl)

theorem GoodU.thenEmit (G : GoodU cfg R) {a b : S α} (h : R a b) (e : Ev α) (he : isHE e = false) :
    R a (Sim.emit b e) := G.trans h (G.emit b e he)

theorem GoodU.thenSilent (G : GoodU cfg R) {a b b' : S α} (h : R a b)
    (h1 : b'.evs = b.evs) (h2 : b'.dealt = b.dealt) (h3 : b'.taken = b.taken) :
    R a b' := G.trans h (G.silent h1 h2 h3)

theorem GoodU.ite (_G : GoodU cfg R) {c : Prop} [Decidable c] {s x y : S α} (hx : R s x) (hy : R s y) :
    R s (if c then x else y) := by
  split
  · exact hx
  · exact hy

theorem GoodU.foldl (G : GoodU cfg R) {β : Type} (f : S α → β → S α) (h : ∀ s x, R s (f s x))
    (l : List β) (s : S α) : R s (l.foldl f s) := G.toGood.foldl f h l s

theorem GoodU.executeAction (G : GoodU cfg R) (s : S α) (id : Int) (ins : Bool) (s' : S α)
    (h : executeAction cfg s id ins = some s') : R s s' := by
  have L := G.toGood
  unfold Sim.executeAction at h
  split at h
  · cases h; exact G.refl s
  · split at h
    · simp only at h
      split at h
      · cases h
      · cases h
        refine G.thenEmit (G.trans (G.trans (G.thenEmit (G.trans (G.silent (by rfl) (by rfl) (by rfl)) (L.modifySP _ _)) _ (by rfl))
          (L.runProg _ _ _ _)) (L.endAttack _)) _ (by rfl)
    · cases h
      refine G.thenEmit (G.trans (G.trans (G.thenEmit (G.thenEmit (G.silent (by rfl) (by rfl) (by rfl)) _ (by rfl)) _ (by rfl))
          (L.runProg _ _ _ _)) (L.endAttack _)) _ (by rfl)

theorem GoodU.executeUlt (G : GoodU cfg R) (s : S α) (a : UltAsk) : R s (executeUlt cfg s a) := by
  have L := G.toGood
  unfold Sim.executeUlt
  split
  · exact G.refl s
  · split
    · exact G.refl s
    · exact G.thenEmit (G.trans (G.trans (G.emit s _ (by rfl)) (L.runProg _ _ _ _)) (L.endAttack _)) _ (by rfl)

theorem GoodU.execTask (G : GoodU cfg R) (s : S α) (t : Task) : R s (execTask cfg s t) := by
  have L := G.toGood
  unfold Sim.execTask
  split
  · split
    · next s' h => exact G.executeAction s _ _ s' h
    · split
      · exact G.silent (by rfl) (by rfl) (by rfl)
      · exact G.refl s
  · exact G.thenEmit (G.trans (G.trans (G.emit s _ (by rfl)) (L.runProg _ _ _ _)) (L.endAttack _)) _ (by rfl)
  · exact G.executeUlt s _
  · exact G.thenEmit (G.trans (G.trans (G.trans (G.emit s _ (by rfl)) (L.hpPrim _ _ _)) (L.modUnit _ _ _)) (L.endAttack _)) _ (by rfl)

theorem GoodU.queueLoop (G : GoodU cfg R) (f : Nat) (s : S α) : R s (queueLoop cfg f s) := by
  have L := G.toGood
  induction f generalizing s with
  | zero => rw [Sim.queueLoop]; exact G.silent (by rfl) (by rfl) (by rfl)
  | succ f ih =>
    rw [Sim.queueLoop]
    split
    · exact G.refl s
    · next t q _ =>
      have h1 : R s (Sim.exitCheck cfg (Sim.deathCheck (Sim.execTask cfg { s with queue := q } t) false)) :=
        G.trans (G.trans (G.trans (G.silent (by rfl) (by rfl) (by rfl)) (G.execTask _ t)) (L.deathCheck _ _)) (L.exitCheck _)
      refine G.ite (L.exitCheck s) (G.ite ?_ (G.ite ?_ ?_))
      · exact G.trans (G.silent (by rfl) (by rfl) (by rfl)) (ih _)
      · exact G.trans (G.silent (by rfl) (by rfl) (by rfl)) (ih _)
      · dsimp only
        exact G.ite h1 (G.ite (G.trans h1 (L.ultCheck _)) (G.trans (G.trans h1 (L.ultCheck _)) (ih _)))

theorem GoodU.executeQueue (G : GoodU cfg R) (f : Nat) (s : S α) (early : Bool) :
    R s (executeQueue cfg f s early) := by
  have L := G.toGood
  unfold Sim.executeQueue
  dsimp only
  exact G.ite (L.ultCheck s) (G.ite (G.trans (L.ultCheck s) (L.exitCheck _)) (G.trans (L.ultCheck s) (G.queueLoop f _)))

theorem GoodU.phase2 (G : GoodU cfg R) (f : Nat) (s : S α) : R s (phase2 cfg f s) := by
  have L := G.toGood
  unfold Sim.phase2
  dsimp only
  have h1 : R s ((Turn.step s.turn .reset).2.foldl (fun s e => match e with
      | .reset id c st => Sim.emit s (.turnReset id c (orderOf st))
      | _ => s) { s with turn := (Turn.step s.turn .reset).1 }) := by
    refine G.trans (G.silent (by rfl) (by rfl) (by rfl)) (G.foldl _ ?_ _ _)
    intro s e
    split
    · exact G.emit _ _ (by rfl)
    · exact G.refl s
  have h2 := G.trans (G.thenEmit h1 .phase2Start (by rfl)) (G.executeQueue f _ false)
  split
  · exact h2
  · exact G.trans (G.thenEmit (G.trans (G.thenEmit (G.trans h2 (L.tickPhase2 _)) _ (by rfl)) (L.deathCheck _ _)) _ (by rfl))
      (L.exitCheck _)

theorem GoodU.turn (G : GoodU cfg R) (f : Nat) (s : S α) : R s (turn cfg f s) := by
  have L := G.toGood
  unfold Sim.turn
  dsimp only
  split
  · next id av st total _ =>
    have h2 : R s (deathCheck (tickPhase1 cfg (Sim.emit (Sim.emit { s with turn := (Turn.step s.turn .start).1, active := id }
        (.turnStart id av total (orderOf st))) .phase1Start)) false) :=
      G.trans (G.trans (G.thenEmit (G.thenEmit (G.silent (by rfl) (by rfl) (by rfl)) _ (by rfl)) _ (by rfl)) (L.tickPhase1 _)) (L.deathCheck _ _)
    refine G.ite (G.trans h2 (G.phase2 f _)) ?_
    · have h3 := G.trans h2 (G.executeQueue f _ true)
      refine G.ite h3 ?_
      · split
        · exact G.trans (G.thenEmit h3 .phase1End (by rfl)) (G.silent (by rfl) (by rfl) (by rfl))
        · next s4 h4 =>
          exact G.trans (G.trans (G.trans (G.thenEmit h3 _ (by rfl)) (G.executeAction _ _ _ s4 h4)) (L.deathCheck _ _))
            (G.phase2 f _)
  · exact G.silent (by rfl) (by rfl) (by rfl)

theorem GoodU.turns (G : GoodU cfg R) (qf f : Nat) (s : S α) : R s (turns cfg qf f s) := by
  induction f generalizing s with
  | zero =>
    rw [Sim.turns]
    split
    · exact G.refl s
    · exact G.silent (by rfl) (by rfl) (by rfl)
  | succ f ih =>
    rw [Sim.turns]
    split
    · exact G.refl s
    · exact G.trans (G.turn qf s) (ih _)

theorem GoodU.start (G : GoodU cfg R) (s : S α) : R s (start cfg s) := by
  have L := G.toGood
  unfold Sim.start
  dsimp only
  refine G.trans ?_ (G.executeQueue 0 _ true)
  refine G.thenEmit ?_ _ (by rfl)
  have h2 : ∀ (ids : List Int) (s1 : S α), R s1 ((Turn.step s1.turn (.add ids)).2.foldl (fun s e => match e with
      | .added ids st => Sim.emit s (.targetsAdded ids (orderOf st))
      | _ => s) { s1 with turn := (Turn.step s1.turn (.add ids)).1 }) := by
    intro ids s1
    refine G.trans (G.silent (by rfl) (by rfl) (by rfl)) (G.foldl _ ?_ _ _)
    intro s e
    split
    · exact G.emit _ _ (by rfl)
    · exact G.refl s
  have h1 : R s (Sim.emit (Sim.emit (Sim.emit
      { s with chars := (List.range cfg.nchars).map fun (i : Nat) => (i : Int) + 1,
               enemies := (List.range cfg.nenemies).map fun (i : Nat) => (i : Int) + 1 + cfg.nchars }
      .initialize) (.charsAdded ((List.range cfg.nchars).map fun (i : Nat) => (i : Int) + 1)))
      (.enemiesAdded ((List.range cfg.nenemies).map fun (i : Nat) => (i : Int) + 1 + cfg.nchars))) :=
    G.thenEmit (G.thenEmit (G.thenEmit (G.silent (by rfl) (by rfl) (by rfl)) _ (by rfl)) _ (by rfl)) _ (by rfl)
  have h3 := G.trans h1 (h2 (((List.range cfg.nchars).map fun (i : Nat) => (i : Int) + 1) ++
      ((List.range cfg.nenemies).map fun (i : Nat) => (i : Int) + 1 + cfg.nchars)) _)
  split
  · exact G.trans h3 (L.runProg _ _ _ _)
  · exact h3

theorem GoodU.run (G : GoodU cfg R) (fuel qfuel : Nat) (s : S α) : R s (run cfg fuel qfuel s) := by
  unfold Sim.run
  dsimp only
  split
  · exact G.start s
  · exact G.trans (G.start s) (G.turns qfuel fuel _)

end upper

/-! ### the relation "only extends the stream, with events that are not action starts, and leaves `calls` alone" -/

theorem collect_frame (cfg : Cfg) (s : S α) (d : Int) (x : α) :
    (collect cfg s d x).evs = s.evs ∧ (collect cfg s d x).calls = s.calls := by
  unfold collect
  dsimp only
  split
  · exact ⟨rfl, rfl⟩
  · exact ⟨rfl, rfl⟩

def ExtRel (s s' : S α) : Prop :=
  s'.calls = s.calls ∧ ∃ new, s'.evs = new ++ s.evs ∧ ∀ e ∈ new, isAS e = false

theorem plain_notAS (e : Ev α) (h : plain e = true) : isAS e = false := by
  unfold plain at h
  cases hh : isAS e
  · rfl
  · rw [hh] at h; simp at h

theorem extGood (cfg : Cfg) : Good cfg (ExtRel (α := α)) where
  trans := by
    rintro a b c ⟨h1, n1, e1, p1⟩ ⟨h2, n2, e2, p2⟩
    refine ⟨h2.trans h1, n2 ++ n1, by rw [e2, e1, List.append_assoc], ?_⟩
    intro e he
    rcases List.mem_append.1 he with h | h
    · exact p2 e h
    · exact p1 e h
  silent := by
    intro s s' h1 _ _ h4
    exact ⟨h4, [], by simpa using h1, by simp⟩
  emit := by
    intro s e he
    refine ⟨rfl, [e], rfl, ?_⟩
    intro e' he'
    rw [List.mem_singleton.1 he']
    exact plain_notAS e he
  hitEnd := by
    intro s a d x y
    refine ⟨(collect_frame cfg s d x).2, [.hitEnd a d x y], ?_, ?_⟩
    · show _ :: (collect cfg s d x).evs = _
      rw [(collect_frame cfg s d x).1]; rfl
    · intro e' he'
      rw [List.mem_singleton.1 he']
      rfl

/-- the shape of a character's action: the bracket, with the skill-point change before it and
nothing that starts another action inside -/
theorem action_shape (cfg : Cfg) (s0 : S α) (id : Int) (ins : Bool) (amt : Int) (ty prog : Nat) (pt : Int) :
    (Sim.emit (endAttack (runProg cfg (Sim.emit (modifySP s0 amt) (.actionStart id ty ins)) prog id pt))
        (.actionEnd id ty ins)).calls = s0.calls ∧
    ∃ new, (Sim.emit (endAttack (runProg cfg (Sim.emit (modifySP s0 amt) (.actionStart id ty ins)) prog id pt))
        (.actionEnd id ty ins)).evs = new ++ s0.evs ∧
      Ev.actionStart id ty ins ∈ new ∧
      ∀ o ty' i, Ev.actionStart o ty' i ∈ new → o = id ∧ i = ins ∧ ty' = ty := by
  have G := extGood (α := α) cfg
  obtain ⟨c1, n1, e1, p1⟩ := G.modifySP s0 amt
  obtain ⟨c2, n2, e2, p2⟩ := G.trans (G.runProg (Sim.emit (modifySP s0 amt) (.actionStart id ty ins)) prog id pt)
    (G.endAttack _)
  refine ⟨c2.trans c1, .actionEnd id ty ins :: n2 ++ .actionStart id ty ins :: n1, ?_, ?_, ?_⟩
  · show _ :: (endAttack _).evs = _
    rw [e2]
    show _ :: (n2 ++ _ :: (modifySP s0 amt).evs) = _
    rw [e1]
    simp
  · simp
  · intro o ty' i hm
    simp only [List.cons_append, List.mem_cons, List.mem_append] at hm
    rcases hm with h | h | h | h
    · cases h
    · have := p2 _ h; simp [isAS] at this
    · cases h; exact ⟨rfl, rfl, rfl⟩
    · have := p1 _ h; simp [isAS] at this

end Sim
