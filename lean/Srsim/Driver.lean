import Srsim.Wire
/-
Generic correspondence driver.  A component provides an executable model (`step`) and a
decidable property predicate (`prop`) evaluated on the *implementation's* observations.
For every case the driver prints

  case <id> corr=ok|<index of first differing op> prop=ok|<reason> cov=<branch tags>

and, on a difference, the model's and the implementation's observation lines.
-/

structure Component (σ : Type) where
  init  : σ
  /-- model step: new state, predicted observations, branch tags exercised -/
  step  : σ → Rec → σ × List Rec × List String
  /-- property predicate on the implementation trace (ops with their observations) -/
  prop  : List (Rec × List Rec) → Option String
  /-- oracle-aware model step: also sees the implementation's observations of this operation, from
  which it may take *only* the values declared as oracle inputs of the model -/
  stepO : Option (σ → Rec → List Rec → σ × List Rec × List String) := none

namespace Driver

structure CaseAcc where
  id   : String := ""
  ops  : Array (Rec × Array Rec) := #[]

def renderObs (l : List Rec) : String := " | ".intercalate (l.map Wire.Rec.render)

def finishCase {σ} (c : Component σ) (acc : CaseAcc) : IO Unit := do
  let mut s := c.init
  let mut firstDiff : Option (Nat × String × String) := none
  let mut cov : List String := []
  let mut i := 0
  for (op, obs) in acc.ops do
    let (s', mobs, tags) := match c.stepO with
      | some f => f s op obs.toList
      | none => c.step s op
    s := s'
    for t in tags do
      if !cov.contains t then cov := t :: cov
    if firstDiff.isNone then
      let m := mobs.map Wire.Rec.render
      let o := obs.toList.map Wire.Rec.render
      if m != o then
        firstDiff := some (i, " | ".intercalate m, " | ".intercalate o)
    i := i + 1
  let trace := acc.ops.toList.map fun (o, obs) => (o, obs.toList)
  -- a call that did not return (the harness's per-case deadline) is a violation whatever the component
  let hung := trace.any fun (_, obs) => obs.any (·.name == "hang")
  let pr := if hung then some "hang: the implementation did not return (deadline of the harness)" else c.prop trace
  let corr := match firstDiff with | none => "ok" | some (k, _, _) => toString k
  let prs := match pr with | none => "ok" | some m => m.replace " " "_"
  IO.println s!"case {acc.id} corr={corr} prop={prs} cov={",".intercalate cov.reverse}"
  if let some (k, m, o) := firstDiff then
    IO.println s!"  diff op#{k}: {Wire.Rec.render (acc.ops[k]!.1)}"
    IO.println s!"  model: {m}"
    IO.println s!"  impl : {o}"

partial def loop {σ} (c : Component σ) (h : IO.FS.Stream) (acc : CaseAcc) : IO Unit := do
  let line ← h.getLine
  if line.isEmpty then return ()
  let line := line.trimAscii.toString
  match Wire.parseLine line with
  | none => loop c h acc
  | some (kind, r) =>
    if kind == "case" then loop c h { id := r.name, ops := #[] }
    else if kind == "op" then loop c h { acc with ops := acc.ops.push (r, #[]) }
    else if kind == "ob" then
      if acc.ops.size == 0 then loop c h acc
      else
        let last := acc.ops.size - 1
        let (o, obs) := acc.ops[last]!
        loop c h { acc with ops := acc.ops.set! last (o, obs.push r) }
    else if kind == "end" then do
      finishCase c acc
      loop c h {}
    else loop c h acc

def main {σ} (c : Component σ) (args : List String) : IO Unit := do
  match args with
  | [path] =>
    let h ← IO.FS.Handle.mk path IO.FS.Mode.read
    loop c (IO.FS.Stream.ofHandle h) {}
  | _ =>
    loop c (← IO.getStdin) {}

end Driver
