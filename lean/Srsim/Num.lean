/-
Arithmetic carrier shared by all numeric models.

Every model that mirrors `float64` code of /repo is written once over `[Num α]`.
* `Num Float` : IEEE-754 binary64, used by the drivers (bit-exact against Go).
* `Num Rat`   : exact arithmetic, used by every theorem.
Equality goes through `Num.eqb` because `Float` has no lawful `DecidableEq`.
This file is core-only (no Mathlib) so that drivers stay light.
-/

class Num (α : Type) extends Add α, Sub α, Mul α, Div α, Neg α, LT α, LE α where
  ofInt : Int → α
  ofSci : Nat → Bool → Nat → α
  decLt : ∀ a b : α, Decidable (a < b)
  decLe : ∀ a b : α, Decidable (a ≤ b)
  /-- Go's `==` on float64 -/
  eqb   : α → α → Bool
  /-- Go's `int64(x)`: truncation toward zero -/
  trunc : α → Int

namespace Num
variable {α : Type} [Num α]
instance (priority := low) instDecLt (a b : α) : Decidable (a < b) := Num.decLt a b
instance (priority := low) instDecLe (a b : α) : Decidable (a ≤ b) := Num.decLe a b
instance (priority := low) instOfNat (n : Nat) : OfNat α n := ⟨Num.ofInt n⟩
instance (priority := low) instOfSci : OfScientific α := ⟨Num.ofSci⟩

/-- `a != b` in Go -/
@[inline] def neb (a b : α) : Bool := !(Num.eqb a b)
/-- two-sided clamp written the way the Go code writes it: `if x > hi {hi} else if x < lo {lo}` -/
@[inline] def clampHiLo (x lo hi : α) : α := if x > hi then hi else if x < lo then lo else x
@[inline] def maxG (a b : α) : α := if a < b then b else a
@[inline] def minG (a b : α) : α := if b < a then b else a
end Num

instance : Num Float where
  ofInt i := Float.ofInt i
  ofSci := OfScientific.ofScientific
  decLt := fun a b => inferInstanceAs (Decidable (a < b))
  decLe := fun a b => inferInstanceAs (Decidable (a ≤ b))
  eqb a b := a == b
  trunc x := x.toInt64.toInt

def Rat.truncZ (x : Rat) : Int := if 0 ≤ x then x.floor else - (-x).floor

instance : Num Rat where
  ofInt i := (i : Rat)
  ofSci := OfScientific.ofScientific
  decLt := fun a b => inferInstanceAs (Decidable (a < b))
  decLe := fun a b => inferInstanceAs (Decidable (a ≤ b))
  eqb a b := decide (a = b)
  trunc x := x.truncZ
