import Srsim.Driver
import Srsim.Spec.QueueSpec
open Queue

def opOfRec (r : Rec) : Option Op :=
  match r.name with
  | "insert" => some (.insert (r.int "prio") (r.int "src") (r.int "tag"))
  | "pop" => some .pop
  | "isempty" => some .isEmpty
  | _ => none

def outRec : Out → Rec
  | .popped t p s => (Rec.mk' "popped").addI "tag" t |>.addI "prio" p |>.addI "src" s
  | .empty b => (Rec.mk' "empty").addB "b" b
  | .crash => Rec.mk' "crash"

/-- C10 on an implementation trace: every take returns the pending task with the smallest
priority, oldest first among equals; each task at most once (search machinery only) -/
def prop (trace : List (Rec × List Rec)) : Option String := Id.run do
  let mut q : SQ := {}
  for (op, obs) in trace do
    match opOfRec op with
    | none => pure ()
    | some o =>
      let (q', want) := sStep q o
      let got := obs
      match o with
      | .pop =>
        match want, got with
        | [.popped t p _], [g] =>
          if g.name != "popped" then return some "take did not return a task"
          if g.int "tag" != t then
            return some s!"took task {g.int "tag"} (priority {g.int "prio"}) but the pending minimum is task {t} (priority {p})"
        | [.crash], _ => pure ()      -- taking from an empty queue is outside the property
        | _, _ => return some "take produced no result"
      | .isEmpty =>
        if got.map Wire.Rec.render != want.map (fun w => Wire.Rec.render (outRec w)) then return some "emptiness misreported"
      | _ => pure ()
      q := q'
  return none

def comp : Component Q where
  init := {}
  step q r :=
    match opOfRec r with
    | none => (q, [Rec.mk' "badop"], [])
    | some op =>
      let (q', o) := step q op
      (q', o.map outRec, [r.name ++ (if q.heap.size > 3 then "-deep" else "") ] ++
        (if r.name == "insert" && q.heap.any (fun t => t.prio == r.int "prio") then ["equal-prio"] else []))
  prop := prop

def main (args : List String) : IO Unit := Driver.main comp args
