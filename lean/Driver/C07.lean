import Srsim.Driver
import Srsim.Model.Attr
import Srsim.Spec.AttrProp
open Attr

def unitOfRec (r : Rec) : Unit Float :=
  { id := r.int "id", hpRatio := r.flt "hpr", energy := r.flt "energy", maxEnergy := r.flt "maxenergy",
    stance := r.flt "stance", maxStance := r.flt "maxstance", lastAttacker := r.int "id",
    hpBase := r.flt "hpbase", hpPct := r.flt "hppct", hpFlat := r.flt "hpflat", hpConv := r.flt "hpconv",
    regen := r.flt "regen", regenConv := r.flt "regenconv", stancePct := r.flt "stancepct" }

def opOfRec (r : Rec) : Option (Op Float) :=
  let id := r.int "id"; let src := r.int "src"; let amt := r.flt "amt"; let dmg := r.bool "dmg"
  match r.name with
  | "add" => some (.add (unitOfRec r))
  | "props" => some (.props id (r.flt "hpbase") (r.flt "hppct") (r.flt "hpflat") (r.flt "hpconv")
                        (r.flt "regen") (r.flt "regenconv") (r.flt "stancepct"))
  | "revive" => some (.revive id (r.bool "on"))
  | "sethp" => some (.setHP id src amt dmg)
  | "modhp" => some (.modHP id src amt dmg)
  | "modhpratio" => some (.modHPRatio id src (r.flt "ratio") (r.nat "typ") (r.flt "floor") dmg)
  | "setenergy" => some (.setEnergy id src amt)
  | "modenergy" => some (.modEnergy id src amt)
  | "modenergyfixed" => some (.modEnergyFixed id src amt)
  | "setstance" => some (.setStance id src amt)
  | "modstance" => some (.modStance id src amt)
  | "modsp" => some (.modSP src (r.int "amt"))
  | _ => none

def Attr.evRec : Ev Float → Rec
  | .hpChange t o n oh nh d => (Rec.mk' "HPChange").addI "t" t |>.addF "oldr" o |>.addF "newr" n |>.addF "oldhp" oh |>.addF "newhp" nh |>.addB "dmg" d
  | .limbo t c => (Rec.mk' "LimboWaitHeal").addI "t" t |>.addB "c" c
  | .energyChange t s o n => (Rec.mk' "EnergyChange").addI "t" t |>.addI "src" s |>.addF "old" o |>.addF "new" n
  | .stanceChange t s o n => (Rec.mk' "StanceChange").addI "t" t |>.addI "src" s |>.addF "old" o |>.addF "new" n
  | .stanceBreak t s => (Rec.mk' "StanceBreak").addI "t" t |>.addI "src" s
  | .stanceReset t => (Rec.mk' "StanceReset").addI "t" t
  | .spChange s o n => (Rec.mk' "SPChange").addI "src" s |>.addI "old" o |>.addI "new" n
  | .errUnknownTarget => (Rec.mk' "err").addS "kind" "unknown_target"
  | .errRatioType => (Rec.mk' "err").addS "kind" "ratio_type"
  | .errDuplicate => (Rec.mk' "err").addS "kind" "duplicate"

def lifeStr : Life → String
  | .alive => "alive" | .dead => "dead" | .limbo => "limbo"

def snapRec (s : St Float) (op : Rec) : Rec :=
  if op.name == "modsp" then (Rec.mk' "snap").addI "sp" s.sp
  else
    let id := op.int "id"
    match find? s id with
    | none =>
      -- the getters' answers for a unit that is not registered: zeros, not alive, "last attacker" the unit itself
      (Rec.mk' "snap").addI "id" id |>.addI "known" 0 |>.addI "sp" s.sp |>.addF "hpr" 0 |>.addF "energy" 0 |>.addF "stance" 0
        |>.addF "maxenergy" 0 |>.addF "maxstance" 0 |>.addB "full" false |>.addB "alive" false |>.addI "last" id
    | some u => (Rec.mk' "snap").addI "id" id |>.addI "known" 1 |>.addF "hpr" u.hpRatio |>.addF "energy" u.energy
        |>.addF "stance" u.stance |>.addS "life" (lifeStr u.life) |>.addI "last" u.lastAttacker |>.addI "sp" s.sp
        |>.addF "maxenergy" u.maxEnergy |>.addF "maxstance" u.maxStance |>.addB "full" (u.energy ≥ u.maxEnergy)
        |>.addF "eratio" (u.energy / u.maxEnergy) |>.addB "alive" (u.life == .alive)

def tagsOf (evs : List (Ev Float)) : List String :=
  evs.map fun
    | .hpChange .. => "hp" | .limbo _ true => "limbo" | .limbo _ false => "dead" | .energyChange .. => "energy"
    | .stanceChange .. => "stance" | .stanceBreak .. => "break" | .stanceReset .. => "reset"
    | .spChange .. => "sp" | .errUnknownTarget => "e-unknown" | .errRatioType => "e-type" | .errDuplicate => "e-dup"

def comp : Component (St Float) where
  init := {}
  step s r :=
    match opOfRec r with
    | none => (s, [Rec.mk' "badop"], [])
    | some op =>
      let (s', evs) := step s op
      (s', evs.map Attr.evRec ++ [snapRec s' r], r.name :: tagsOf evs)
  prop := AttrProp.prop

def main (args : List String) : IO Unit := Driver.main comp args
