import Srsim.Spec.AggProp
def comp : Component AggAdapter.DSt where
  init := {}
  step := AggAdapter.stepRec
  prop := AggProp.prop
def main (args : List String) : IO Unit := Driver.main comp args
