import Srsim.Adapter.Dispatch

def main (args : List String) : IO Unit := Driver.main Dispatch.comp args
