import Srsim.Adapter.Gcs
def comp : Component Unit where
  init := ()
  step := GcsAdapter.lexStep
  prop := GcsAdapter.lexProp
def main (args : List String) : IO Unit := Driver.main comp args
