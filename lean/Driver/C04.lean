import Srsim.Spec.CombatProp
def comp : Component (Combat.St Float) where
  init := {}
  step := CombatAdapter.stepRec
  prop := CombatProp.check "hit"
def main (args : List String) : IO Unit := Driver.main comp args
