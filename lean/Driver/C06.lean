import Srsim.Spec.ModifierProp
def comp : Component ModAdapter.DSt where
  init := {}
  step := ModAdapter.stepRec
  prop := ModifierProp.checkC06
def main (args : List String) : IO Unit := Driver.main comp args
