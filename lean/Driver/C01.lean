import Srsim.Driver
import Srsim.Adapter.Real

def comp : Component Unit where
  init := ()
  step _ _ := ((), [], [])
  stepO := some RealAdapter.stepO
  prop := RealAdapter.sameProp ["same-process", "fresh-process", "overlapping-run", "same-evaluator", "without-loggers"]

def main (args : List String) : IO Unit := Driver.main comp args
