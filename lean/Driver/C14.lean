import Srsim.Adapter.GcsParse
def comp : Component Unit where
  init := ()
  step := GcsAdapter.parseStep
  prop := GcsAdapter.treeProp
def main (args : List String) : IO Unit := Driver.main comp args
