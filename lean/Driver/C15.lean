import Srsim.Driver
import Srsim.Adapter.Real

def comp : Component Unit where
  init := ()
  step _ _ := ((), [], [])
  stepO := some RealAdapter.stepO
  prop := RealAdapter.sameProp ["after-other-runs", "later-run-logs", "sample-endpoint", "shared-config", "concurrent", "concurrent-logs"]

def main (args : List String) : IO Unit := Driver.main comp args
