import Srsim.Driver
import Srsim.Model.Shield
import Srsim.Spec.ShieldProp
open Shield

def opOfRec (r : Rec) : Option (Op Float) :=
  match r.name with
  | "add" => some (.add (r.int "key") (r.int "src") (r.int "tgt") (ShieldProp.parseTerms r) (r.flt "flat")
      { srcATK := r.flt "srcatk", srcDEF := r.flt "srcdef", srcHP := r.flt "srchp", tgtHP := r.flt "tgthp",
        boost := r.flt "boost", taken := r.flt "taken" })
  | "remove" => some (.remove (r.int "key") (r.int "tgt"))
  | "absorb" => some (.absorb (r.int "tgt") (r.flt "dmg"))
  | _ => none

def Shield.evRec : Ev Float → Rec
  | .added k s t h => (Rec.mk' "ShieldAdded").addI "key" k |>.addI "src" s |>.addI "tgt" t |>.addF "health" h
  | .removed k t => (Rec.mk' "ShieldRemoved").addI "key" k |>.addI "tgt" t
  | .change t k o n i out => (Rec.mk' "ShieldChange").addI "tgt" t |>.addI "key" k |>.addF "old" o |>.addF "new" n |>.addF "in" i |>.addF "out" out
  | .ret o => (Rec.mk' "ret").addF "out" o

def listRec (s : St Float) (t : Int) : Rec :=
  let l := shieldsOf s t
  (Rec.mk' "list").addI "tgt" t |>.addIs "keys" (l.map (·.key)) |>.addFs "hps" (l.map (·.hp))
    |>.addB "shielded" (!l.isEmpty) |>.addF "max" (maxShield l)

def tagsOf (s : St Float) (r : Rec) (evs : List (Ev Float)) : List String :=
  let t := r.int "tgt"
  let base := match r.name with
    | "add" => [if (shieldsOf s t).any (·.key == r.int "key") then "add-replace" else "add-new",
                s!"terms{(r.list "terms").length}", if r.flt "flat" != 0 then "flat" else "noflat"]
    | "remove" => [if evs.isEmpty then "remove-miss" else "remove-hit"]
    | "absorb" =>
      if (shieldsOf s t).isEmpty then ["absorb-unshielded"] else if r.flt "dmg" ≤ 0 then ["absorb-nonpositive"]
      else [s!"absorb-n{min (shieldsOf s t).length 3}",
            if evs.any (fun | .removed .. => true | _ => false) then "absorb-depletes" else "absorb-survives"]
    | _ => []
  base

def comp : Component (St Float) where
  init := {}
  step s r :=
    match opOfRec r with
    | none => (s, [Rec.mk' "badop"], [])
    | some op =>
      let (s1, evs1) := step s op
      -- a removal whose announcement a listener answers with a backup shield for the same unit (flat strength, no
      -- bonuses): the new shield is attached, and announced, before the removal's own announcement is complete
      let (s', evs) :=
        if r.name == "remove" && r.has "rekey" && !evs1.isEmpty then
          let (s2, evs2) := step s1 (.add (r.int "rekey") (r.int "tgt") (r.int "tgt") [] (r.flt "rehp")
            { srcATK := 0, srcDEF := 0, srcHP := 1000, tgtHP := 1000, boost := 0, taken := 0 })
          (s2, evs2 ++ evs1)
        else (s1, evs1)
      (s', evs.map Shield.evRec ++ [listRec s' (r.int "tgt")], tagsOf s r evs ++ (if r.has "rekey" then ["readd-listener"] else []))
  prop := ShieldProp.prop

def main (args : List String) : IO Unit := Driver.main comp args
