import Srsim.Spec.AggProp
/-
The command-line batch (cmd/srsim/execute.go) against the aggregator model: the harness regenerates
`cfg` / `add` / `flush` operations from what the program must have aggregated (one iteration result per
seed of the batch's generator) and reports the statistics the program wrote as the observation of `flush`.
With one worker the results arrive in seed order and the comparison is bit for bit; with several workers
the arrival order is the scheduler's, so the model's statistics are compared up to rounding (the
order-independence theorems of `Props/C19.lean` are about exactly this).
-/
structure CliSt where
  agg : AggAdapter.DSt := {}
  exact : Bool := true

def stepO (s : CliSt) (op : Rec) (obs : List Rec) : CliSt × List Rec × List String :=
  if op.name == "cli" then
    ({ s with exact := op.nat "workers" ≤ 1 }, obs.filter (·.name == "cli"),
      ["cli", if op.nat "workers" ≤ 1 then "one-worker" else "workers>1"] ++ (obs.filter (·.name == "cli")).map (·.str "kind"))
  else
    let (a, recs, tags) := AggAdapter.stepRec s.agg op
    let close := recs.length == obs.length && (recs.zip obs).all fun (m, o) => (AggProp.sameUpToRounding m o).isNone
    ({ s with agg := a }, if !s.exact && op.name == "flush" && close then obs else recs, tags)

def cliProp (trace : List (Rec × List Rec)) : Option String :=
  match trace.findSome? fun (op, obs) =>
      if op.name != "cli" then none else
      obs.findSome? fun o =>
        if o.name == "nobuild" then some ("the command-line program no longer builds: " ++ o.str "msg")
        else if o.name != "cli" then none
        else if o.str "kind" == "failing" then
          (if o.bool "exit0" then some "a batch with a failing iteration exits as if it had succeeded"
           else if o.bool "result" then some "a batch with a failing iteration still writes statistics" else none)
        else if o.str "kind" == "no-result" then some ("a valid batch wrote no statistics: " ++ o.str "out")
        else none with
  | some m => some m
  | none => AggProp.prop (trace.filter fun (op, _) => op.name != "cli")

def comp : Component CliSt where
  init := {}
  step := fun s _ => (s, [], [])
  prop := cliProp
  stepO := some stepO

def main (args : List String) : IO Unit := Driver.main comp args
