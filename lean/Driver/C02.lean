import Srsim.Spec.TurnProp
def comp : Component (Turn.St Float) where
  init := TurnAdapter.init
  step := TurnAdapter.stepRec
  prop := TurnProp.prop
def main (args : List String) : IO Unit := Driver.main comp args
