import Srsim.Adapter.GcsEval
def comp : Component Unit where
  init := ()
  step := GcsAdapter.evalStep
  prop := GcsAdapter.evalProp
def main (args : List String) : IO Unit := Driver.main comp args
