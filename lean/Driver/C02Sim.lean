import Srsim.Driver
import Srsim.Spec.SimProp

def comp : Component Unit where
  init := ()
  step _ _ := ((), [], [])
  stepO := some SimAdapter.stepO
  prop := SimProp.turnResetProp

def main (args : List String) : IO Unit := Driver.main comp args
