import Srsim.Adapter.Pool

def main (args : List String) : IO Unit := Driver.main PoolAdapter.comp args
