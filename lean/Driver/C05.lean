import Srsim.Spec.ModifierProp
def comp : Component ModAdapter.DSt where
  init := {}
  step := ModAdapter.stepRec
  stepO := some fun d r obs => ModAdapter.stepRec (ModAdapter.withShuffle d r obs) r
  prop := ModifierProp.checkC05
def main (args : List String) : IO Unit := Driver.main comp args
