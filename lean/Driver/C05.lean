import Srsim.Adapter.Modifier
def comp : Component ModAdapter.DSt where
  init := {}
  step := ModAdapter.stepRec
  prop := fun _ => none
def main (args : List String) : IO Unit := Driver.main comp args
