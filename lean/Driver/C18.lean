import Srsim.Driver
import Srsim.Spec.HandlerProp
open Handler

def opOfRec (r : Rec) : Option Op :=
  match r.name with
  | "mk" => some (.mk (r.nat "kind"))
  | "sub" => some (.sub (r.nat "h") ⟨r.nat "lid", r.int "prio", HandlerProp.parseScript (r.str "script")⟩)
  | "ord" => some (.ord (r.nat "h") ((r.ints "lids").map Int.toNat))
  | "emit" => some (.emit (r.nat "h") (r.int "x"))
  | _ => none

def outRec : Out → Rec
  | .call d h l x => (Rec.mk' "call").addI "d" d |>.addI "h" h |>.addI "lid" l |>.addI "x" x
  | .log d h x c => (Rec.mk' "log").addI "d" d |>.addI "h" h |>.addI "x" x |>.addB "c" c
  | .ret h c => (Rec.mk' "ret").addI "h" h |>.addB "c" c
  | .badOrder => Rec.mk' "bad-order"

def tagsOf (t : Table) (r : Rec) (o : List Out) : List String :=
  match r.name with
  | "emit" =>
    let k := (t.getD (r.nat "h") {kind := 9}).kind
    let n := (t.getD (r.nat "h") {kind := 9}).ls.length
    [s!"emit-k{k}", if n > 12 then "n>12" else if n > 1 then "n>1" else "n≤1"] ++
    (if o.any (fun | .ret _ true => true | _ => false) then ["cancelled"] else []) ++
    (if (o.filter (fun | .log .. => true | _ => false)).length > 1 then ["nested"] else [])
  | "ord" =>
    let ls := (t.getD (r.nat "h") {kind := 9}).ls
    if (ls.zip ls.tail).any (fun (a, b) => a.prio == b.prio) then ["equal-prio"] else ["ord"]
  | n => [n]

def comp : Component Table where
  init := []
  step t r :=
    match opOfRec r with
    | none => (t, [Rec.mk' "badop"], [])
    | some op =>
      let (t', o) := step t op
      (t', o.map outRec, tagsOf t' r o)
  prop := HandlerProp.prop

def main (args : List String) : IO Unit := Driver.main comp args
