"""Per-property configuration of ./check (see DESIGN.md §6)."""

PROPS = {
    "C07": {
        "level_text": "Kernel-checked Lean theorems (range invariant over all operation lists, per-call exactness of change reports, chaining over all histories, break/reset iff crossing zero) about an executable model of the attribute service; the model is tied to the Go code on every run by a bit-exact differential correspondence check and the property predicate is evaluated on the implementation's own observations.",
        "level_note": "Trusted: Lean kernel, propext/Classical.choice/Quot.sound, Mathlib; the correspondence check and its generators; theorems are over Rat (real-arithmetic reading of float64 code). Modelled not verified: pkg/engine/attribute; modifier manager stubbed.",
        "technique": "Lean 4 proof (invariant by induction over operations) + differential model/implementation correspondence",
        "component": "attr",
        "driver": "Driver/C07.lean",
        "modules": ["Srsim.Props.C07"],
        "n": {"quick": 400, "thorough": 6000},
        "thorough_seeds": 4,
        "trivial_tags": ["add", "props", "revive"],
        "trusted": ["modelled, not verified: pkg/engine/attribute (modify.go, event.go, add.go, getters) and info.statCalc; "
                    "the modifier manager is replaced by a stub Eval supplying arbitrary property vectors"],
        "assumptions": ["units are registered with in-range attributes (OpValid)", "finite float amounts (no NaN/Inf); positive max HP",
                        "no re-entrant listeners on the attribute events"],
    },
    "C16": {
        "level_text": "Kernel-checked Lean theorems about an executable model of the shield manager: strength = (sum of terms + flat)(1+bonus)(1+taken) independent of term order; add replaces in place or appends; absorb passes on max(0, damage - strongest), reduces every shield by the full damage floored at 0, removes and announces exactly the depleted ones once; pass-through for non-positive damage/unshielded; key-uniqueness and non-negativity invariants over all histories. Tied to the Go code by a bit-exact correspondence check over add/remove/absorb sequences (shield list observed through a verif-tagged hook).",
        "level_note": "Trusted: Lean kernel, propext/Classical.choice/Quot.sound, Mathlib; correspondence harness and generators; Rat reading of float64. Modelled not verified: pkg/engine/shield; attribute stats supplied by a stub Eval; math.Dim modelled as max(0,a-b).",
        "technique": "Lean 4 proof (refinement to spec + invariants by induction) + differential model/implementation correspondence",
        "component": "shield",
        "driver": "Driver/C16.lean",
        "modules": ["Srsim.Props.C16"],
        "n": {"quick": 400, "thorough": 6000},
        "thorough_seeds": 4,
        "nontrivial_min": 3,
        "trusted": ["modelled, not verified: pkg/engine/shield (add.go, absorb.go, remove.go, manager.go); stats via stub Eval; math.Dim"],
        "assumptions": ["non-negative shield strengths for the non-negativity invariant (OpNonNeg)", "finite float inputs"],
    },
}
