"""Per-property configuration of ./check (see DESIGN.md §6)."""

PROPS = {
    "C07": {
        "level_text": "Kernel-checked Lean theorems (range invariant over all operation lists, per-call exactness of change reports, chaining over all histories, break/reset iff crossing zero) about an executable model of the attribute service; the model is tied to the Go code on every run by a bit-exact differential correspondence check and the property predicate is evaluated on the implementation's own observations.",
        "level_note": "Trusted: Lean kernel, propext/Classical.choice/Quot.sound, Mathlib; the correspondence check and its generators; theorems are over Rat (real-arithmetic reading of float64 code). Modelled not verified: pkg/engine/attribute; modifier manager stubbed.",
        "technique": "Lean 4 proof (invariant by induction over operations) + differential model/implementation correspondence",
        "component": "attr",
        "driver": "Driver/C07.lean",
        "modules": ["Srsim.Props.C07"],
        "n": {"quick": 400, "thorough": 6000},
        "thorough_seeds": 4,
        "trivial_tags": ["add", "props", "revive"],
        "trusted": ["modelled, not verified: pkg/engine/attribute (modify.go, event.go, add.go, getters) and info.statCalc; "
                    "the modifier manager is replaced by a stub Eval supplying arbitrary property vectors"],
        "assumptions": ["units are registered with in-range attributes (OpValid)", "finite float amounts (no NaN/Inf); positive max HP",
                        "no re-entrant listeners on the attribute events"],
    },
}
