"""Source-fact step of ./check: the extractor (/verif/extract, go/types over /repo's current tree)
lists facts; every fact of the given kinds must be in the reviewed expectation file with a class,
and every expectation must still be a fact.  A new, vanished or re-classified site is reported as a
problem (the differential step that follows searches for a failing input)."""
import os, subprocess

V = os.path.dirname(os.path.dirname(os.path.abspath(__file__)))

def build_extractor(g):
    out = os.path.join(V, ".work", "verifextract")
    env = dict(g["GOENV"])
    src = os.path.join(V, "extract")
    rc = subprocess.run(["go", "build", "-o", out, "."], cwd=src, env=env, capture_output=True, text=True)
    return (rc.returncode == 0, rc.stdout + rc.stderr, out)

def load_expect(path):
    exp = {}
    for l in open(path):
        l = l.rstrip("\n")
        if not l.strip() or l.startswith("#"):
            continue
        parts = [p.strip() for p in l.split("|")]
        exp[parts[0]] = {"class": parts[1] if len(parts) > 1 else "?", "why": parts[2] if len(parts) > 2 else ""}
    return exp

def facts_step(kinds, expect_file, bad_classes=("ORDER-SENSITIVE", "SHARED-STATE"), known_classes=None):
    def step(pid, cfg, tier, seed, report, g):
        ok, o, binp = build_extractor(g)
        if not ok:
            report["problems"].append("the fact extractor does not build: " + o[-800:]); return
        r = subprocess.run([binp, "/repo"], capture_output=True, text=True, env=dict(g["GOENV"]), timeout=600)
        if r.returncode != 0:
            report["problems"].append("the fact extractor failed on /repo: " + (r.stderr or r.stdout)[-800:]); return
        facts = [l.strip() for l in r.stdout.splitlines() if l.split(" ", 1)[0] in kinds]
        exp = load_expect(os.path.join(V, "extract", expect_file))
        new = [f for f in facts if f not in exp]
        gone = [e for e in exp if e not in facts]
        bad = [f for f in facts if f in exp and exp[f]["class"] in bad_classes]
        hist = {}
        for f in facts:
            c = exp.get(f, {}).get("class", "UNREVIEWED")
            hist[c] = hist.get(c, 0) + 1
        report["coverage"]["source_facts"] = {"extractor": "extract/main.go (go/packages + go/types over /repo)", "kinds": list(kinds),
                                              "facts": len(facts), "by_class": hist, "unreviewed": new, "vanished": gone}
        for f in new:
            report["problems"].append(f"unreviewed source site (not in extract/{expect_file}): {f}")
        findings = [x for x in g["load_findings"]() if x["property"] == pid]
        for f in bad:
            # a bad site is a known finding when known_findings.txt lists its key (file:function name)
            site = f.split()[1]
            known = [x for x in findings if x["key"] == site]
            if known:
                report["known"].add((site, known[0]["text"]))
            else:
                report["problems"].append(f"source site classified {exp[f]['class']}: {f} ({exp[f]['why']})")
        for e in gone:
            report["problems"].append(f"reviewed source site no longer present (re-review extract/{expect_file}): {e}")
    return step


def race_step(n=8):
    """thorough tier: the concurrent runs of the `real` component under the Go race detector; a race
    whose accesses are not all in the known logger global (or in the harness's own cross-wired logger,
    a consequence of it) is reported with the detector's report as replay."""
    import re
    def step(pid, cfg, tier, seed, report, g):
        if tier != "thorough":
            report["coverage"]["race_detector"] = "thorough tier only"
            return
        env = dict(g["GOENV"], VERIF_REAL_MODE="isolation")
        binp = os.path.join(V, ".work", "verifharness-race")
        src = os.path.join(V, "harness")
        subprocess.run(["cp", "/repo/go.sum", os.path.join(src, "go.sum")])
        b = subprocess.run(["go", "build", "-race", "-tags", "verif", "-o", binp, "."], cwd=src, env=env, capture_output=True, text=True)
        if b.returncode != 0:
            report["coverage"]["race_detector"] = "race build unavailable: " + (b.stdout + b.stderr)[-300:]
            return
        outp = os.path.join(V, ".work", f"{pid}-race.out")
        r = subprocess.run([binp, "real", "gen", "-seed", str(seed), "-n", str(n), "-out", outp], env=env, capture_output=True, text=True, timeout=3000)
        blocks = r.stderr.split("WARNING: DATA RACE")[1:]
        unknown = []
        for blk in blocks:
            tops = re.findall(r"(?:Write|Read|Previous write|Previous read) at [^\n]*\n  [^\n]*\n\s+(/\S+:\d+)", blk)
            if not all(("/pkg/engine/logging/logger.go" in t) or t.startswith("/verif/harness/") or "/src/runtime/" in t for t in tops):
                unknown.append(blk[:3000])
        report["coverage"]["race_detector"] = {"races_reported": len(blocks), "outside_known_logger_global": len(unknown), "runs": n}
        if unknown:
            rp = g["write_replay"](pid, {"property": pid, "kind": "data-race", "race_report": unknown[0],
                                         "how_to_replay": f"cd harness && go build -race -tags verif -o ../.work/verifharness-race . && VERIF_REAL_MODE=isolation ../.work/verifharness-race real gen -seed {seed} -n {n} -out /dev/null"})
            report["violations"].append(rp)
        elif blocks:
            fs = [x for x in g["load_findings"]() if x["property"] == pid and x["key"] == "pkg/engine/logging/logger.go:InitLoggers"]
            if fs:
                report["known"].add((fs[0]["key"], fs[0]["text"]))
    return step
