"""Source-fact step of ./check: the extractor (/verif/extract, go/types over /repo's current tree)
lists facts; every fact of the given kinds must be in the reviewed expectation file with a class,
and every expectation must still be a fact.  A new, vanished or re-classified site is reported as a
problem (the differential step that follows searches for a failing input)."""
import os, subprocess

V = os.path.dirname(os.path.dirname(os.path.abspath(__file__)))

def build_extractor(g):
    out = os.path.join(V, ".work", "verifextract")
    env = dict(g["GOENV"])
    src = os.path.join(V, "extract")
    rc = subprocess.run(["go", "build", "-o", out, "."], cwd=src, env=env, capture_output=True, text=True)
    return (rc.returncode == 0, rc.stdout + rc.stderr, out)

def load_expect(path):
    exp = {}
    for l in open(path):
        l = l.rstrip("\n")
        if not l.strip() or l.startswith("#"):
            continue
        parts = [p.strip() for p in l.split("|")]
        exp[parts[0]] = {"class": parts[1] if len(parts) > 1 else "?", "why": parts[2] if len(parts) > 2 else ""}
    return exp

def facts_step(kinds, expect_file, bad_classes=("ORDER-SENSITIVE", "SHARED-STATE")):
    def step(pid, cfg, tier, seed, report, g):
        ok, o, binp = build_extractor(g)
        if not ok:
            report["problems"].append("the fact extractor does not build: " + o[-800:]); return
        r = subprocess.run([binp, "/repo"], capture_output=True, text=True, env=dict(g["GOENV"]), timeout=600)
        if r.returncode != 0:
            report["problems"].append("the fact extractor failed on /repo: " + (r.stderr or r.stdout)[-800:]); return
        facts = [l.strip() for l in r.stdout.splitlines() if l.split(" ", 1)[0] in kinds]
        exp = load_expect(os.path.join(V, "extract", expect_file))
        new = [f for f in facts if f not in exp]
        gone = [e for e in exp if e not in facts]
        bad = [f for f in facts if f in exp and exp[f]["class"] in bad_classes]
        hist = {}
        for f in facts:
            c = exp.get(f, {}).get("class", "UNREVIEWED")
            hist[c] = hist.get(c, 0) + 1
        report["coverage"]["source_facts"] = {"extractor": "extract/main.go (go/packages + go/types over /repo)", "kinds": list(kinds),
                                              "facts": len(facts), "by_class": hist, "unreviewed": new, "vanished": gone}
        for f in new:
            report["problems"].append(f"unreviewed source site (not in extract/{expect_file}): {f}")
        for f in bad:
            report["problems"].append(f"source site classified {exp[f]['class']}: {f} ({exp[f]['why']})")
        for e in gone:
            report["problems"].append(f"reviewed source site no longer present (re-review extract/{expect_file}): {e}")
    return step
