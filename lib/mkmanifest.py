#!/usr/bin/env python3
"""Regenerates MANIFEST.json from lib/props.py (run after editing props.py)."""
import json, os, sys
V = os.path.dirname(os.path.dirname(os.path.abspath(__file__)))
sys.path.insert(0, os.path.join(V, "lib"))
from props import PROPS
ALL = [f"C{i:02d}" for i in range(1, 21)]
checks = []
for pid in ALL:
    if pid not in PROPS:
        continue
    c = PROPS[pid]
    checks.append({
        "property_id": pid,
        "quick_cmd": f"./check {pid} --tier quick",
        "thorough_cmd": f"./check {pid} --tier thorough",
        "evidence_file": f"evidence/{pid}.json",
        "replay_cmd_template": "./check replay {path}",
        "engine": "lean4-proof+correspondence",
        "level_claimed": {"category": "proof", "text": c["level_text"], "design_ref": f"DESIGN.md §6 {pid}"},
        "level_note": c["level_note"],
        "technique": c["technique"],
    })
na = [{"property_id": p, "reason": "not yet built in this round (planned, see DESIGN.md §9)"} for p in ALL if p not in PROPS]
m = {
    "version": 1,
    "setup_cmd": "./check setup",
    "hooks": {"guard": "verif", "enable": "go build -tags verif (the harness module replaces github.com/simimpact/srsim by /repo)",
              "baseline_off_cmd": "cd /repo && go test -mod=mod -json -vet=off -count=1 -timeout 25m ./...",
              "source_commits": ["62b587d", "3f967e0", "e2abfe2", "4b753d3", "968010b", "de01ab7", "bb853bb", "e13d354"], "add_only": True},
    "engines": [{"name": "lean4-proof+correspondence", "path": "lean/ harness/ check",
                 "serves_properties": [c["property_id"] for c in checks],
                 "kind_free_text": "Lean 4 theorems about executable models; Go harness + Lean drivers run model and implementation on the same operation sequences"}],
    "checks": checks,
    "not_applicable": na,
    "notes": "See DESIGN.md. Every check rebuilds the harness against /repo's working tree, rebuilds the Lean property module, audits axioms, runs the correspondence check and writes evidence/<id>.json.",
}
json.dump(m, open(os.path.join(V, "MANIFEST.json"), "w"), indent=1)
print("wrote MANIFEST.json:", len(checks), "checks,", len(na), "not applicable")
