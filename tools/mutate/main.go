// mutate enumerates and applies single-point syntactic mutations of one Go file (automated mutation
// sweep of /verif's own checks; the mutated tree lives in a scratch copy, never in /repo).
//
//	mutate list  <file.go>            one line per mutation point: <k> <line> <operator> <detail>
//	mutate apply <file.go> <k> <out>  write the file with mutation k applied
package main

import (
	"bytes"
	"fmt"
	"go/ast"
	"go/parser"
	"go/printer"
	"go/token"
	"os"
	"strconv"
)

type point struct {
	line   int
	op     string
	detail string
	apply  func()
}

var swaps = map[token.Token]token.Token{
	token.LSS: token.LEQ, token.LEQ: token.LSS, token.GTR: token.GEQ, token.GEQ: token.GTR,
	token.EQL: token.NEQ, token.NEQ: token.EQL, token.LAND: token.LOR, token.LOR: token.LAND,
	token.ADD: token.SUB, token.SUB: token.ADD, token.MUL: token.QUO, token.QUO: token.MUL,
}

func collect(fset *token.FileSet, f *ast.File) []point {
	var pts []point
	line := func(p token.Pos) int { return fset.Position(p).Line }
	// statement deletion needs the enclosing list
	var visitBlock func(list *[]ast.Stmt)
	visitBlock = func(list *[]ast.Stmt) {
		for i := range *list {
			i := i
			st := (*list)[i]
			del := func(what string) {
				pts = append(pts, point{line(st.Pos()), "delete", what, func() {
					(*list)[i] = &ast.EmptyStmt{Semicolon: st.Pos(), Implicit: false}
				}})
			}
			switch v := st.(type) {
			case *ast.ExprStmt:
				if _, ok := v.X.(*ast.CallExpr); ok {
					del("call")
				}
			case *ast.AssignStmt:
				if v.Tok != token.DEFINE {
					del("assignment")
				}
			case *ast.IncDecStmt:
				del("incdec")
			case *ast.BranchStmt:
				if v.Tok == token.CONTINUE || v.Tok == token.BREAK {
					del(v.Tok.String())
				}
			}
		}
	}
	ast.Inspect(f, func(n ast.Node) bool {
		switch v := n.(type) {
		case *ast.FuncDecl:
			if v.Name.Name == "init" {
				return false
			}
		case *ast.BlockStmt:
			visitBlock(&v.List)
		case *ast.CaseClause:
			visitBlock(&v.Body)
		case *ast.BinaryExpr:
			if to, ok := swaps[v.Op]; ok {
				from := v.Op
				pts = append(pts, point{line(v.OpPos), "binary", from.String() + " -> " + to.String(), func() { v.Op = to }})
			}
		case *ast.UnaryExpr:
			if v.Op == token.NOT {
				x := v.X
				pts = append(pts, point{line(v.OpPos), "unary", "drop !", func() { v.X = &ast.UnaryExpr{Op: token.NOT, X: &ast.ParenExpr{X: x}} }})
			}
		case *ast.IfStmt:
			c := v.Cond
			pts = append(pts, point{line(v.Pos()), "if", "negate condition", func() { v.Cond = &ast.UnaryExpr{Op: token.NOT, X: &ast.ParenExpr{X: c}} }})
		case *ast.BasicLit:
			if v.Kind == token.INT {
				if k, err := strconv.ParseInt(v.Value, 0, 64); err == nil && k < 1000 {
					old := v.Value
					pts = append(pts, point{line(v.Pos()), "literal", old + " -> " + strconv.FormatInt(k+1, 10), func() { v.Value = strconv.FormatInt(k+1, 10) }})
				}
			}
		}
		return true
	})
	return pts
}

func main() {
	if len(os.Args) < 3 {
		fmt.Fprintln(os.Stderr, "usage: mutate list <file> | mutate apply <file> <k> <out>")
		os.Exit(2)
	}
	fset := token.NewFileSet()
	f, err := parser.ParseFile(fset, os.Args[2], nil, parser.ParseComments)
	if err != nil {
		fmt.Fprintln(os.Stderr, err)
		os.Exit(2)
	}
	pts := collect(fset, f)
	switch os.Args[1] {
	case "list":
		for k, p := range pts {
			fmt.Printf("%d %d %s %s\n", k, p.line, p.op, p.detail)
		}
	case "apply":
		k, _ := strconv.Atoi(os.Args[3])
		if k < 0 || k >= len(pts) {
			os.Exit(2)
		}
		pts[k].apply()
		var buf bytes.Buffer
		if err := printer.Fprint(&buf, fset, f); err != nil {
			fmt.Fprintln(os.Stderr, err)
			os.Exit(2)
		}
		if err := os.WriteFile(os.Args[4], buf.Bytes(), 0o644); err != nil {
			fmt.Fprintln(os.Stderr, err)
			os.Exit(2)
		}
	}
}
