#!/usr/bin/env python3
"""Automated mutation sweep of /verif's own checks.

Works on SCRATCH COPIES only (never /repo, never /verif): `setup` copies /repo and /verif under a
scratch root and points the copy's harness at the copied repository; `run` applies single-point
syntactic mutations (tools/mutate) to the anchor files of the copied repository one at a time,
rebuilds, runs the quick checks of the properties anchored in that file and records which mutants
the checks kill.  Survivors are listed for triage (equivalent mutant / outside every property /
gap of the machinery).  Results: <root>/results.jsonl.

  tools/mutsweep.py setup  <root>
  tools/mutsweep.py run    <root> [--files f1,f2,...] [--max-per-file N] [--seed S]
  tools/mutsweep.py report <root>
"""
import json, os, random, re, subprocess, sys, time

GOENV = dict(os.environ, GOFLAGS="-mod=mod", GOPROXY="off", GOSUMDB="off", GOTOOLCHAIN="local", CGO_ENABLED="0")


def sh(cmd, cwd=None, env=None, timeout=None):
    try:
        r = subprocess.run(cmd, cwd=cwd, env=env, capture_output=True, text=True, timeout=timeout)
        return r.returncode, r.stdout + r.stderr
    except subprocess.TimeoutExpired as e:
        return 124, "timeout"


def setup(root):
    os.makedirs(root, exist_ok=True)
    sh(["rm", "-rf", os.path.join(root, "repo"), os.path.join(root, "verif")])
    sh(["cp", "-r", "/repo", os.path.join(root, "repo")])
    sh(["rsync", "-a", "--exclude", "replays", "--exclude", ".git", "/verif/", os.path.join(root, "verif") + "/"])
    v = os.path.join(root, "verif")
    for rel in ("harness/go.mod", "extract/go.mod"):
        p = os.path.join(v, rel)
        if os.path.exists(p):
            s = open(p).read().replace("=> /repo", "=> " + os.path.join(root, "repo"))
            open(p, "w").write(s)
    p = os.path.join(v, "lib", "facts.py")
    s = open(p).read().replace('[binp, "/repo"]', '[binp, os.environ.get("VERIF_REPO", "/repo")]').replace('"cp", "/repo/go.sum"', '"cp", os.environ.get("VERIF_REPO", "/repo") + "/go.sum"')
    open(p, "w").write(s)
    sh(["cp", os.path.join(root, "repo", "go.sum"), os.path.join(v, "harness", "go.sum")])
    rc, o = sh(["go", "build", "-o", os.path.join(root, "mutate"), "."], cwd="/verif/tools/mutate", env=GOENV)
    print("setup done", rc, o[-300:])


def anchors():
    m = {}
    for l in open("/verif/properties.jsonl"):
        d = json.loads(l)
        for f in d["anchors"]["files"]:
            m.setdefault(f, []).append(d["id"])
    return m


def run(root, files=None, max_per_file=40, seed=1, only=None):
    repo, v = os.path.join(root, "repo"), os.path.join(root, "verif")
    # a build cache of its own, emptied now and then: every mutant leaves objects behind (the shared cache grew to
    # 127 GB during the first sweep)
    gocache = os.path.join(root, "gocache")
    GOENV["GOCACHE"] = gocache
    env = dict(GOENV, VERIF_REPO=repo, VERIF_SKIP_LEAN="1", VERIF_SIM_DEADLINE_MS="5000", VERIF_REAL_DEADLINE_MS="15000",
               VERIF_CASE_DEADLINE_MS="30000")
    done = 0
    anch = anchors()
    rnd = random.Random(seed)
    todo = files or sorted(f for f in anch if f.endswith(".go") and os.path.exists(os.path.join(repo, f))
                           and not f.endswith(".pb.go") and "/internal/" not in "/" + f and not f.startswith("internal/"))
    out = open(os.path.join(root, "results.jsonl"), "a")
    for f in todo:
        src = os.path.join(repo, f)
        orig = open(src).read()
        rc, o = sh([os.path.join(root, "mutate"), "list", src])
        pts = [l.split(" ", 3) for l in o.splitlines() if l.strip()]
        rnd.shuffle(pts)
        # the C01/C15/C20 real-content checks are slow; keep to the model-backed ones unless the file has nothing else
        props = [p for p in anch.get(f, []) if p not in ("C01", "C15")] or anch.get(f, [])
        if only is not None:
            pts = [p for p in pts if (f, int(p[0])) in only]
        for k, line, op, detail in pts[:max_per_file]:
            t0 = time.time()
            done += 1
            if done % 40 == 0:
                sh(["rm", "-rf", gocache])
            rec = {"file": f, "k": int(k), "line": int(line), "op": op, "detail": detail, "props": props}
            try:
                rc, o = sh([os.path.join(root, "mutate"), "apply", src, k, src])
                if rc != 0:
                    rec["status"] = "apply-failed"
                    continue
                pkg = "./" + os.path.dirname(f) + "/..."
                rc, o = sh(["go", "build", "./..."], cwd=repo, env=GOENV, timeout=600)
                if rc != 0:
                    rec["status"] = "stillborn"
                    continue
                killed_by = []
                for p in props:
                    rc, o = sh(["./check", p], cwd=v, env=env, timeout=1500)
                    if rc != 0 or "VIOLATION" in o:
                        killed_by.append(p)
                        break
                rec["status"] = "killed" if killed_by else "survived"
                rec["killed_by"] = killed_by
                if not killed_by:
                    rc, o = sh(["go", "test", "-vet=off", "-count=1", pkg], cwd=repo, env=GOENV, timeout=900)
                    rec["package_tests"] = "fail" if rc != 0 else "pass"
            finally:
                open(src, "w").write(orig)
                rec["secs"] = round(time.time() - t0, 1)
                out.write(json.dumps(rec) + "\n"); out.flush()
                print(rec["status"], f, line, op, detail, rec.get("killed_by", ""), rec.get("package_tests", ""), flush=True)


def report(root):
    rows = [json.loads(l) for l in open(os.path.join(root, "results.jsonl"))]
    by = {}
    for r in rows:
        by.setdefault(r["status"], []).append(r)
    print({k: len(v) for k, v in by.items()})
    for r in by.get("survived", []):
        print("SURVIVED %s:%d %s %s props=%s package_tests=%s" % (r["file"], r["line"], r["op"], r["detail"], ",".join(r["props"]), r.get("package_tests")))


if __name__ == "__main__":
    cmd, root = sys.argv[1], sys.argv[2]
    if cmd == "setup":
        setup(root)
    elif cmd == "run":
        files, mx, seed = None, 40, 1
        a = sys.argv[3:]
        while a:
            if a[0] == "--files":
                files = a[1].split(","); a = a[2:]
            elif a[0] == "--max-per-file":
                mx = int(a[1]); a = a[2:]
            elif a[0] == "--seed":
                seed = int(a[1]); a = a[2:]
            else:
                a = a[1:]
        run(root, files, mx, seed)
    elif cmd == "recheck":
        # the survivors of an earlier sweep (its results file) against the current copy
        rows = [json.loads(l) for l in open(sys.argv[3])]
        only = {(r["file"], r["k"]) for r in rows if r["status"] == "survived"}
        run(root, sorted({f for f, _ in only}), 10 ** 6, 1, only)
    else:
        report(root)
